from engines.table_engine import TableEngine

SPEC = {
    "engine": TableEngine,
    "quick_runs": 2400,
    "quick_budget_s": 70,
    "thorough_budget_s": 900,
    "chunk": 30,
    "rule": (
        "one case = one seeded history on one table (initial states as C01) of <= 40 steps mixing cache-filling reads "
        "(get_row/get_cell/get_value/traverse/get_column/..., clone and clone=False), the C01 mutations, whole-table "
        "operations (rstrip, optimize_width, transpose, set_span, del_span), repeated-setters on live wrappers, Row methods called on an unrepeated row obtained with clone=False, and extend_rows fed by an iterable that raises half-way (caught by the caller) or that holds the same Row object several times; after "
        "EVERY step (reads included) the comparison set taken on the live object is compared with the same set taken on "
        "Element.from_tag(table.serialize()) and with an independent lxml expansion of the XML; for tables attached to a "
        "document also with the table of the saved-and-reloaded document. distinct = distinct run digest. non-trivial = "
        ">= 3 mutations, >= 1 mutation aimed inside a repeated run, >= 1 restart or mutation right after a cache-warming read."
    ),
    "assumptions": [
        "the independent XML expansion (simkit/xmlref.py) is trusted; operations that raise are not judged here (C01 does) — the table is rebuilt from its XML and the run goes on",
        "semantics of each operation are taken from the public docstrings; where a docstring is silent the model follows the reading under which the operation addresses exactly the row/cell named",
        "sizes bounded: logical tables <= ~14x14, repeats <= 8 (rare 20..60), <= 40 steps per run; huge trailing runs (1e6 rows) are not explored",
        "sampling, not enumeration: a clean batch is evidence, not proof",
    ],
}
