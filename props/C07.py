from engines.table_engine import TableEngine

SPEC = {
    "engine": TableEngine,
    "quick_runs": 2400,
    "quick_budget_s": 70,
    "thorough_budget_s": 900,
    "chunk": 30,
    "rule": (
        "one case = one seeded history on one table (initial states and operations as C01/C02); after every step an "
        "independent lxml walk of the table XML checks: repeat attributes absent or integer >= 2, rows contain only "
        "(covered-)cells, column declarations precede rows, no row wider than the declared columns, the first row added to "
        "an empty table declares columns, height/width reported = sums of the repeats. A rule already broken by the initial "
        "state is disabled for that run. distinct = distinct run digest. non-trivial = >= 3 mutations, >= 1 mutation aimed "
        "inside a repeated run, >= 1 restart or mutation right after a cache-warming read."
    ),
    "assumptions": [
        "the structural checker xmlref.table_wellformed is trusted; only the first sentence of C07 is decided (accepted table / named-range names are a pure function of the name string: not a simulation target)",
        "semantics of each operation are taken from the public docstrings; where a docstring is silent the model follows the reading under which the operation addresses exactly the row/cell named",
        "sizes bounded: logical tables <= ~14x14, repeats <= 8 (rare 20..60), <= 40 steps per run; huge trailing runs (1e6 rows) are not explored",
        "sampling, not enumeration: a clean batch is evidence, not proof",
    ],
}
