from engines.doc_engine import DocEngine

SPEC = {
    "engine": DocEngine,
    "quick_runs": 2400,
    "quick_budget_s": 75,
    "thorough_budget_s": 900,
    "chunk": 15,
    "rule": (
        "one case = one seeded history over {new from each template, new from a document used as custom template (Document.new(path); the template file replaced right afterwards), open each sample (path / BytesIO / folder / foreign-writer re-zip), add_file (path|Path|BytesIO|short-read source|image; the same content repeatedly), del_part, image frames and other body/meta/style edits, merge_styles_from a sample (the same sample repeatedly), an extra part registered by hand (set_part + Manifest.add_full_path), continue on a clone, save as zip (path|BytesIO|in place|pre-existing target with/without backup; pretty or not) with folder saves in between (the same folder saved again, reopened, zipped), add_file of files whose suffix is not URL-safe, del_part of manifest.rdf, reopen (restart)}; every zip written is read by an independent zipfile/lxml inspector: first entry 'mimetype', ZIP_STORED, content = document type; no duplicate entry names; manifest has '/' with the mimetype; every file other than mimetype and META-INF/manifest.xml listed exactly once; every listed path present (directories: prefix of some entry). Mismatches the same inspector already finds in the source package are baseline and not counted. Error faults as in C03 (fail-stop). distinct = distinct run digest. non-trivial = >= 1 successful save and (>= 1 edit or >= 1 reopen)."
    ),
    "assumptions": [
        "the package inspector (engines/docsim.py inspect_odf_zip) is trusted",
        "beyond the alphabet the quantifier lists (add_file, del_part, templates, clone, merge, image frames) one more way of putting a file into a package is generated under the statement's 'whatever was done to a document': set_part of an extra part followed by Manifest.add_full_path for it (public API; the same name registered repeatedly, empty or given media type); set_part of a new name WITHOUT a manifest entry is the caller's omission and is not generated"
],
    "transition_measure": "distinct (op, source kind, history flags, packaging, target kind, sub-kind) tuples",
    "real_components": ["odfdo (all of it, from /repo/src)", "lxml", "zipfile", "the real file system under a per-run scratch directory on tmpfs"],
    "stubbed_components": ["clock: odfdo.container.time and datetime in meta/note/mixin_dc_date/meta_template read the simulated clock", "file mtimes: SimPath.stat() reports the simulated mtime recorded when the file was written through the shims", "directory listing order: SimPath.iterdir() returns a seeded permutation", "fault-injecting shims around Path / ZipFile / shutil / BytesIO (k-th call of a site raises OSError, optionally after a partial write)", "mime table pinned to the stdlib one"],
}
