from engines.multi import C10Engine

SPEC = {
    "engine": C10Engine,
    "quick_runs": 2400,
    "quick_budget_s": 70,
    "thorough_budget_s": 900,
    "chunk": 30,
    "rule": (
        "one case = one seeded history (initial states and operations as C01/C02) in which, at a seeded point, the table is cloned; afterwards every operation goes to a seeded one of the two twins and after EVERY operation the other twin is re-observed (serialisation, full comparison set through its own caches, number of rows reachable by an absolute XPath from it) and must be unchanged; at birth the clone must answer exactly as the original and cloning must not change the original. Argument objects of set/insert/append calls are handed to the other twin through the same call (the first table holds a copy) or changed by the caller afterwards. Interleaved are Row.clone / Cell.clone checks on live wrappers and on rows handed out by rows / get_rows / traverse (the clone attached to another table, live reads of the original's table compared) (equal at birth incl. x/y, mutate the clone -> original and table unchanged, edit the table -> clone unchanged). Document leg (half of the runs, engine D over the simulated file system): documents opened lazily from a zip path, eagerly from BytesIO, from a folder or a foreign-writer zip, with unsaved edits / set_part / del_part / add_file, are cloned (Document.clone); both twins then receive interleaved edits, saves and reopen-free histories and after every op the in-memory content of the OTHER twin (all parts through the public API) must be unchanged; the clone is also saved over the very file the original was lazily opened from; XmlPart.clone and Container.clone are checked for equality at birth and independence both ways.. distinct = distinct run digest. non-trivial = a twin exists and >= 3 operations were applied while it existed."
    ),
    "assumptions": [
        "the observation of the untouched twin goes through the public read API and its serialisation; identity of private lists is never inspected",
        "semantics of each operation are taken from the public docstrings; where a docstring is silent the model follows the reading under which the operation addresses exactly the row/cell named",
        "sizes bounded: logical tables <= ~14x14, repeats <= 8 (rare 20..60), <= 40 steps per run; huge trailing runs (1e6 rows) are not explored",
        "sampling, not enumeration: a clean batch is evidence, not proof",
    ],
}
