from engines.doc_engine import DocEngine

SPEC = {
    "engine": DocEngine,
    "quick_runs": 1800,
    "quick_budget_s": 75,
    "thorough_budget_s": 900,
    "chunk": 15,
    "rule": (
        "one case = one seeded history on one document (sources and reopen routes as C03) of edits (body, meta, styles; generated paragraphs/headings mixing text with text:s, text:tab, text:line-break, nested spans, links, footnotes, frames with text boxes, bookmarks, annotations, reference marks, fields in seeded adjacency) and 'save sets': the same state is saved as plain zip (the reference), then under a seeded selection/order of {pretty zip, folder with default pretty, folder pretty=False, flat xml default pretty, flat xml pretty=False, zip default} to paths and BytesIO targets (one buffer re-used, the source folder saved in place with or without backup, the flat export sometimes as the very first save), then as plain zip again; histories also delete unreferenced parts, switch the mimetype to / from its template variant and place the same picture in several frames. Oracles: (i) every variant vs the reference, through an independent reader: ODF white-space-aware text of every text:p/text:h identical, element skeleton + attribute values identical, character data of leaf elements identical; (ii) the in-memory document read through the public API (serialisation of the five XML parts, bytes of the others) is identical before and after EVERY save, generator stamp apart; (iii) the final plain save equals the first part by part; (iv) with an injected write error in one variant, the save may raise but memory must be unchanged and the later saves correct. distinct = distinct run digest. non-trivial = >= 1 successful save and (>= 1 edit or >= 1 reopen)."
    ),
    "assumptions": [
        "the part-store model (engines/docsim.py PartStore) and the independent package reader (simkit/xmlref.py read_package, c14n) are trusted",
        "Document.save's documented side effects are modelled by design: generator stamp in meta.xml (masked), manifest.rdf reconciled with the manifest",
        "explicit zip directory entries are compared only when they are empty leaf directories",
        "flat-XML export is checked for well-formedness and mimetype only (it cannot be reopened)",
        "no property is quantified over faults: an injected error never creates an obligation by itself (fail-stop oracle)"
],
    "transition_measure": "distinct (op, source kind, history flags, packaging, target kind, sub-kind) tuples",
    "real_components": ["odfdo (all of it, from /repo/src)", "lxml", "zipfile", "the real file system under a per-run scratch directory on tmpfs"],
    "stubbed_components": ["clock: odfdo.container.time and datetime in meta/note/mixin_dc_date/meta_template read the simulated clock", "file mtimes: SimPath.stat() reports the simulated mtime recorded when the file was written through the shims", "directory listing order: SimPath.iterdir() returns a seeded permutation", "fault-injecting shims around Path / ZipFile / shutil / BytesIO (k-th call of a site raises OSError, optionally after a partial write)", "mime table pinned to the stdlib one"],
}
