from engines.table_engine import TableEngine

SPEC = {
    "engine": TableEngine,
    "quick_runs": 2400,
    "quick_budget_s": 70,
    "thorough_budget_s": 900,
    "chunk": 30,
    "rule": (
        "one case = one seeded history on one table: an initial state (empty / prefilled / random run-length "
        "encoding incl. ragged rows and header rows / sample .ods|.odt table) followed by <= 40 generated public "
        "Table/Row/Cell operations (incl. read-edit-push-back idioms: a row taken from get_row / get_rows / rows / traverse, an area read with get_cells or a column read with get_column and set straight back), the real table stepped next to an uncompressed list-of-lists Grid model and the "
        "full comparison set (size, get_values, area, every row's values and width, every single value in a window "
        "one ring beyond the edges, a column, a padded row, cell styles) compared after every step. distinct = "
        "distinct run digest (ops + outcomes + state digests). non-trivial = >= 3 mutations, >= 1 mutation aimed "
        "inside a repeated run (row, cell or column), and >= 1 restart or mutation issued right after a cache-warming read."
    ),
    "assumptions": [
        "the Grid model (engines/grid.py, ~250 lines) and the independent XML expansion (simkit/xmlref.py) are trusted",
        "semantics of each operation are taken from the public docstrings; where a docstring is silent the model follows the reading under which the operation addresses exactly the row/cell named",
        "sizes bounded: logical tables <= ~14x14, repeats <= 8 (rare 20..60), <= 40 steps per run; huge trailing runs (1e6 rows) are not explored",
        "sampling, not enumeration: a clean batch is evidence, not proof",
    ],
}
