from engines.text_engine import TextEngine

SPEC = {
    "engine": TextEngine,
    "quick_runs": 8000,
    "quick_budget_s": 70,
    "thorough_budget_s": 900,
    "chunk": 200,
    "rule": (
        "one case = one seeded history on one text document: headings of levels 1..10 appended / inserted anywhere / deleted / retitled (texts with runs of blanks, tabs, spans) / re-levelled, plain paragraphs, a TOC created first or later, moved first/last, its outline level set 0..10, fill() (attached or with the document argument, with or without default styles), fill twice, restarts (content.xml re-parsed, or save + reopen). After each fill an independent lxml reader lists the entries of text:index-body: title kept; exactly one entry per heading with 1 <= level <= outline level, in document order; each entry is '<number> <heading text>' and nothing else; the number has as many components as the level, each component an independent outline counter gives (for a skipped level only the components of existing ancestors are judged); a second fill leaves the serialisation unchanged; odfdo.scripts.headers.headers_document on the same document reports the same outline. distinct = distinct run digest. non-trivial = >= 1 fill and >= 3 operations."
    ),
    "assumptions": [
        "the outline counter in engines/text_engine.py (_outline_numbers) and xmlref.raw_text are trusted",
        "the digit shown for a missing ancestor level is not asserted"
],
    "transition_measure": "distinct (op, kind/mode, trigger features, white-space class of the argument) tuples",
    "real_components": ["odfdo (all of it, from /repo/src)", "lxml"],
    "stubbed_components": [],
}
