from engines.table_engine import TableEngine

SPEC = {
    "engine": TableEngine,
    "quick_runs": 2400,
    "quick_budget_s": 70,
    "thorough_budget_s": 900,
    "chunk": 30,
    "rule": (
        "one case = one seeded history on one table (initial states and mutations as C01, so tables carry arbitrary run-length encodings, ragged rows, styled empty cells and earlier spans) in which ~45% of the steps are law checks: transpose twice (whole table, or a square area) gives back get_values() modulo trailing all-empty rows/columns (exactly, when the table is rectangular and tight); rstrip / optimize_width keep every remaining cell at its coordinates, cut only empty cells/rows, are idempotent, and rstrip leaves no empty trailing row or cell; set_span on a free area returns True, marks exactly the area (anchor carries both span counts, all other cells covered, nothing outside changes, values unchanged unless merge), returns False and changes nothing on a single cell or when overlapping an existing span, and del_span restores the pre-span expansion; to_csv -> import_from_csv (path / StringIO / BytesIO, excel and unix dialects, explicit delimiter) preserves values on the domain where CSV is unambiguous (ints, bools, empty, plain words). All laws are judged on an independent lxml expansion of the table. distinct = distinct run digest. non-trivial = >= 2 law checks and >= 1 mutation."
    ),
    "assumptions": [
        "laws are stated on what an independent reader of the XML sees (xmlref.table_expand); transpose involution is asserted modulo trailing empties (exact only for rectangular tight tables); the CSV law is asserted only on the value domain where CSV is unambiguous and with the delimiter given explicitly (csv.Sniffer guesses are not part of the law)",
        "semantics of each operation are taken from the public docstrings; where a docstring is silent the model follows the reading under which the operation addresses exactly the row/cell named",
        "sizes bounded: logical tables <= ~14x14, repeats <= 8 (rare 20..60), <= 40 steps per run; huge trailing runs (1e6 rows) are not explored",
        "sampling, not enumeration: a clean batch is evidence, not proof",
    ],
}
