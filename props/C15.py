from engines.doc_engine import DocEngine

SPEC = {
    "engine": DocEngine,
    "quick_runs": 2400,
    "quick_budget_s": 75,
    "thorough_budget_s": 900,
    "chunk": 15,
    "rule": (
        "one case = one seeded history on one document (templates and samples with bounded table sizes, opened by every route of C03) in which most steps call a seeded ORDER of entry points from an allow-list of ~120 reporting calls (among them area reads starting in every column, the same row questions to one Table object in three orders, reads at and past the end, what lies between paired reference marks / annotations / tracked changes) (getters and searches of Document/Body/Element/Table/Row/Meta/Manifest, get_formatted_text plain and rst, to_markdown, str(), to_csv(None), show_styles, get_formated_meta, meta.as_dict/as_text/as_json, replace(pattern) without replacement (also formatted=True), search*, match, text_at, serialize and pretty serialisations, ...), interleaved with edits (paragraphs with spacing elements, ranges between paired marks, tables with repeated runs incl. explicit repeat counts of 1, images, an unfilled table of contents, foreign named ranges, xml:id-only tracked changes, a sparse meta.xml, comments / PIs around the root elements - the last five put in at the XML level -, body cleared), saves and reopen (restart). Each entry point is called, the serialisation of all five XML parts + the bytes of every other part are compared byte for byte with the state before, it is called again and must give the same answer, and a fixed little document is exported to Markdown / str() to detect a process-global export context left dirty (MD_GLOBAL). A call that raises must still leave the document and the export context untouched. distinct = distinct run digest. non-trivial = >= 2 entry points called."
    ),
    "assumptions": [
        "the part-store model (engines/docsim.py PartStore) and the independent package reader (simkit/xmlref.py read_package, c14n) are trusted",
        "Document.save's documented side effects are modelled by design: generator stamp in meta.xml (masked), manifest.rdf reconciled with the manifest",
        "explicit zip directory entries are compared only when they are empty leaf directories",
        "flat-XML export is checked for well-formedness and mimetype only (it cannot be reopened)",
        "no property is quantified over faults: an injected error never creates an obligation by itself (fail-stop oracle)"
],
    "transition_measure": "distinct (op, source kind, history flags, packaging, target kind, sub-kind) tuples",
    "real_components": ["odfdo (all of it, from /repo/src)", "lxml", "zipfile", "the real file system under a per-run scratch directory on tmpfs"],
    "stubbed_components": ["clock: odfdo.container.time and datetime in meta/note/mixin_dc_date/meta_template read the simulated clock", "file mtimes: SimPath.stat() reports the simulated mtime recorded when the file was written through the shims", "directory listing order: SimPath.iterdir() returns a seeded permutation", "fault-injecting shims around Path / ZipFile / shutil / BytesIO (k-th call of a site raises OSError, optionally after a partial write)", "mime table pinned to the stdlib one"],
}
