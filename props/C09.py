from engines.text_engine import TextEngine

SPEC = {
    "engine": TextEngine,
    "quick_runs": 16000,
    "quick_budget_s": 70,
    "thorough_budget_s": 900,
    "chunk": 300,
    "rule": (
        "one case = one seeded history on one Paragraph / Header built from a sentence with runs of blanks, tabs and line breaks: <= 14 markup operations of mixed kinds - set_span / set_link by regex (literals taken from the current text, classes, \\\\w+, alternations, prefixes, blank+word, never empty-matching, sometimes matching nothing) or by offset/length in, at and beyond range; set_bookmark / set_reference_mark / insert_annotation by position, (int,int), before / after / content regex with occurrence index (also -1) and bookmark roles; insert_note after a regex - then removals (remove_spans, remove_links, remove_span / remove_link of one element, delete() of a mark, delete() of an inline span/link) and restarts. After every step an independent lxml projection of the paragraph (notes and annotations skipped) must equal the text before; new span/link elements must hold exactly the substrings designated (per text node for regex; the documented/implemented clipping to the node for offset+length); empty marks must sit after exactly the designated number of characters (not judged once a note/annotation body is in the paragraph, since positions then also count their characters); an address designating nothing must leave the serialisation unchanged or raise with it unchanged; removals must return a copy holding the same text and leave the element itself unchanged; deleting an inline element must remove exactly its own text. distinct = distinct run digest. non-trivial = >= 2 successful insertions."
    ),
    "assumptions": [
        "the text projection (xmlref.raw_text) is trusted; offset/length whose length crosses a node boundary is modelled as documented/implemented (clipped to the node) and only text preservation + 'is a prefix of the designated slice' is asserted there",
        "insert_reference adds a visible field and is not in the statement: not generated"
],
    "transition_measure": "distinct (op, kind/mode, trigger features, white-space class of the argument) tuples",
    "real_components": ["odfdo (all of it, from /repo/src)", "lxml"],
    "stubbed_components": [],
}
