from engines.table_engine import TableEngine

SPEC = {
    "engine": TableEngine,
    "quick_runs": 2400,
    "quick_budget_s": 70,
    "thorough_budget_s": 900,
    "chunk": 30,
    "rule": (
        "one case = one seeded history on one table (initial states and mutations as C01) in which ~45% of the steps are "
        "probes: a getter (get_cell, get_row, get_cells, get_rows, traverse, rows, cells, get_column(s), columns, "
        "traverse_columns, get_column_cells, Row.get_cell/traverse/cells/get_cells, get_value) is called with seeded "
        "coordinates/ranges in, at and beyond the edges (tuple, 'C4' and negative count-from-the-end forms); returned objects are checked for the coordinates they were read "
        "from, for holding the value / style an independent reader finds there, and for absence of a repeat count where the read expands repetitions; then ONE returned object is mutated "
        "(set_value / style / repeated / clear / append_cell) and, for getters documented as returning copies, the table "
        "serialisation and every other returned object must be unchanged; reads outside the populated area must return "
        "empty objects without raising or growing the table. distinct = distinct run digest. non-trivial = >= 2 "
        "mutations and >= 2 probes."
    ),
    "assumptions": [
        "expected coordinates are computed from the independent XML expansion; getters whose docstring makes no copy promise (get_rows, rows, get_cells, cells, get_column_cells, Row.cells/get_cells) are checked for coordinates/expansion only; get_columns(coord) range semantics are left to C19 (not claimed)",
        "semantics of each operation are taken from the public docstrings; where a docstring is silent the model follows the reading under which the operation addresses exactly the row/cell named",
        "sizes bounded: logical tables <= ~14x14, repeats <= 8 (rare 20..60), <= 40 steps per run; huge trailing runs (1e6 rows) are not explored",
        "sampling, not enumeration: a clean batch is evidence, not proof",
    ],
}
