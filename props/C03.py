from engines.doc_engine import DocEngine

SPEC = {
    "engine": DocEngine,
    "quick_runs": 2400,
    "quick_budget_s": 75,
    "thorough_budget_s": 900,
    "chunk": 15,
    "rule": (
        "one case = one seeded history on one document: source (each of the 4 templates, or a sample under tests/samples opened by path [lazy zip], pathlib.Path, BytesIO [eager], from a folder unzipped by the simulator [lazy + whole-second mtime cache, seeded listing order], or from a foreign-writer re-zip [other member order, stored/deflated mix, mimetype not first]) followed by <= 25 ops: touch a part (the cache-filling read), body/meta/style edits, set_part on XML parts before or after they were parsed (also XML with a comment before and a processing instruction after the root element) and on binary/new parts, touches of the files of a source folder (new mtime, same content), del_part, add_file (path / Path / BytesIO / short-read source; repeated content; the same path again after its file was rewritten), a generator chosen by the user (property or method), edits of embedded-object parts remembered by the harness, documents made with Document.new(<custom template>), save (zip|folder|flat xml x path|path without suffix|.folder|BytesIO|in place|pre-existing target, backup, cwd change, simulated clock advance/jump between ops; pretty=False) and reopen of an earlier artefact by every route (the restart: the reopened document continues the history). At every save that returns, the package is read by an independent zipfile/lxml reader and compared part by part with the in-memory document taken just before the call (live lxml tree of every parsed part written out by the harness - not by XmlPart.serialize -, stored bytes of the others per a last-writer-wins part-store model): same names, C14N-equal XML parts (generator stamp masked), byte-identical other parts; then every part is read back through odfdo and compared again. ~25% of the runs of the fault-injecting configuration place one OSError (ENOSPC/EIO/EACCES, optionally after a partial write) on the k-th writestr / zip read / write_bytes / read_bytes / rmtree / move / BytesIO write / mkdir of a save: the save may raise (then nothing is asserted on the torn target) but if it returns its result is judged as above. distinct = distinct run digest. non-trivial = >= 1 successful save and (>= 1 edit or >= 1 reopen)."
    ),
    "assumptions": [
        "the part-store model (engines/docsim.py PartStore) and the independent package reader (simkit/xmlref.py read_package, c14n) are trusted",
        "Document.save's documented side effects are modelled by design: generator stamp in meta.xml (masked), manifest.rdf reconciled with the manifest",
        "explicit zip directory entries are compared only when they are empty leaf directories",
        "flat-XML export is checked for well-formedness and mimetype only (it cannot be reopened)",
        "no property is quantified over faults: an injected error never creates an obligation by itself (fail-stop oracle)"
],
    "transition_measure": "distinct (op, source kind, history flags, packaging, target kind, sub-kind) tuples",
    "real_components": ["odfdo (all of it, from /repo/src)", "lxml", "zipfile", "the real file system under a per-run scratch directory on tmpfs"],
    "stubbed_components": ["clock: odfdo.container.time and datetime in meta/note/mixin_dc_date/meta_template read the simulated clock", "file mtimes: SimPath.stat() reports the simulated mtime recorded when the file was written through the shims", "directory listing order: SimPath.iterdir() returns a seeded permutation", "fault-injecting shims around Path / ZipFile / shutil / BytesIO (k-th call of a site raises OSError, optionally after a partial write)", "mime table pinned to the stdlib one"],
}
