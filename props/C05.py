from engines.text_engine import TextEngine

SPEC = {
    "engine": TextEngine,
    "quick_runs": 24000,
    "quick_budget_s": 70,
    "thorough_budget_s": 900,
    "chunk": 400,
    "rule": (
        "one case = one seeded history on one Paragraph / Header / Span: constructed from a string (or empty) over an alphabet of letters, blank, runs of blanks, tab, newline, XML-special characters, accented, CJK and astral characters, NBSP / NNBSP / ideographic space and the line-boundary characters U+2028 / U+2029 / U+0085 (white-space density is a per-run knob), then a seeded split of further text into append_plain_text / append calls, with restarts (serialize -> Element.from_tag) in between. After EVERY step: inner_text = the model string; an independent lxml reader projects the XML to text three ways - raw (no collapsing), as a consumer applying ODF white-space collapsing (blanks after text:s/tab/line-break kept), and under the strict reading that also drops trailing character-data blanks - each must equal the model string; odfdo's own serialize + from_tag route must give back the same text and the same class. The property's 'exhaustively up to a length bound' is NOT delivered: this is sampling. distinct = distinct run digest. non-trivial = >= 2 appends and >= 1 chunk containing white space."
    ),
    "assumptions": [
        "the ODF white-space interpreter (simkit/xmlref.py odf_text / raw_text) is trusted",
        "only construction / append histories are asserted (appending after markup insertion is not in the statement)",
        "no CR and no XML-illegal control characters (lxml rejects them: outside the property's alphabet)"
],
    "transition_measure": "distinct (op, kind/mode, trigger features, white-space class of the argument) tuples",
    "real_components": ["odfdo (all of it, from /repo/src)", "lxml"],
    "stubbed_components": [],
}
