from engines.doc_engine import DocEngine

SPEC = {
    "engine": DocEngine,
    "quick_runs": 1200,
    "quick_budget_s": 75,
    "thorough_budget_s": 900,
    "chunk": 15,
    "rule": (
        "one case = one seeded history on one document (each of the 4 templates or a sample; opened as in C03) of insert_style over every family (the 12 style:style families + master-page, font-face, page-layout, list, number, percentage, date, time, boolean, currency, outline), named through the constructor or the name argument from a small pool that repeats names across families and includes odfdo_auto_N, or unnamed; common / automatic / default; add_page_break_style (twice), set_table_displayed, merge_styles_from a second document that itself receives unsaved style insertions, body/meta edits, save and reopen (restart), re-lookup of everything inserted so far. Oracle: an independent XPath/lxml census {(part, container, tag, family, name) -> definitions} taken before and after each op: the inserted definition sits in the part/container its family and kind require, exactly once; every other entry is unchanged; Document.get_style(family, returned name) returns exactly that definition, also after save+reopen; generated automatic names are not in the pre-existing census; after merge the census is the union with the other document's definitions in place, and the other document's census is unchanged. distinct = distinct run digest. non-trivial = >= 1 successful save and (>= 1 edit or >= 1 reopen)."
    ),
    "assumptions": [
        "the part-store model (engines/docsim.py PartStore) and the independent package reader (simkit/xmlref.py read_package, c14n) are trusted",
        "Document.save's documented side effects are modelled by design: generator stamp in meta.xml (masked), manifest.rdf reconciled with the manifest",
        "explicit zip directory entries are compared only when they are empty leaf directories",
        "flat-XML export is checked for well-formedness and mimetype only (it cannot be reopened)",
        "no property is quantified over faults: an injected error never creates an obligation by itself (fail-stop oracle)"
],
    "transition_measure": "distinct (op, source kind, history flags, packaging, target kind, sub-kind) tuples",
    "real_components": ["odfdo (all of it, from /repo/src)", "lxml", "zipfile", "the real file system under a per-run scratch directory on tmpfs"],
    "stubbed_components": ["clock: odfdo.container.time and datetime in meta/note/mixin_dc_date/meta_template read the simulated clock", "file mtimes: SimPath.stat() reports the simulated mtime recorded when the file was written through the shims", "directory listing order: SimPath.iterdir() returns a seeded permutation", "fault-injecting shims around Path / ZipFile / shutil / BytesIO (k-th call of a site raises OSError, optionally after a partial write)", "mime table pinned to the stdlib one"],
}
