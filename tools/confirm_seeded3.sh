#!/bin/bash
# tools/confirm_seeded.sh <Cxx> <n>   — confirm the sub-agent's change m<n> for property Cxx in a scratch
# worktree of /repo HEAD (outside /repo and /verif), then keep it as /verif/seeded/<Cxx>-m<n>/.
set -u
SRCID=$1; N=$2; ID=${SRCID:0:3}; R=${SRCID:3}; TAG=${R}m
SRC=/tmp/wt/$SRCID/OUT
WT=/tmp/confirm/$ID-$TAG$N
OUT=/verif/seeded/$ID-$TAG$N
mkdir -p /tmp/confirm
git -C /repo worktree add -q --detach "$WT" HEAD || exit 2
cd "$WT"
applied=yes
if ! git apply "$SRC/m$N.diff" 2>/dev/null; then
  patch -p1 -s --no-backup-if-mismatch < "$SRC/m$N.diff" || applied=no
fi
if [ $applied = no ]; then echo "$ID-$TAG$N: PATCH-DOES-NOT-APPLY"; git -C /repo worktree remove --force "$WT"; exit 3; fi
git diff -- src > /tmp/confirm/$ID-$TAG$N.diff
PYTHONPATH=$WT/src /venv/bin/python -B "$SRC/demo$N.py" > /tmp/confirm/$ID-$TAG$N.demo_mut.log 2>&1; dm=$?
PYTHONPATH=$WT/src timeout 1200 /venv/bin/python -m pytest -q -p no:cacheprovider -n 4 tests > /tmp/confirm/$ID-$TAG$N.tests.log 2>&1; tr=$?
tests_line=$(tail -1 /tmp/confirm/$ID-$TAG$N.tests.log)
git checkout -q -- src
PYTHONPATH=$WT/src /venv/bin/python -B "$SRC/demo$N.py" > /tmp/confirm/$ID-$TAG$N.demo_base.log 2>&1; db=$?
cd /; git -C /repo worktree remove --force "$WT"
echo "$ID-$TAG$N: tests_exit=$tr ($tests_line) demo_with_change=$dm demo_without=$db"
if [ $tr -eq 0 ] && [ $dm -ne 0 ] && [ $db -eq 0 ]; then
  mkdir -p "$OUT"
  cp /tmp/confirm/$ID-$TAG$N.diff "$OUT/patch.diff"
  cp "$SRC/demo$N.py" "$OUT/demo.py"
  /venv/bin/python - "$ID" "$N" "$tests_line" "$dm" "$db" "$SRCID" "$TAG" <<'PY'
import json,sys
ID,N,tl,dm,db,SRCID,TAG=sys.argv[1:8]
notes=json.load(open(f"/tmp/wt/{SRCID}/OUT/notes.json"))
n=[x for x in notes if x["patch"]==f"m{N}.diff"][0]
meta={"id":f"{ID}-{TAG}{N}","property":ID,"summary":n["summary"],"needs":n["needs"],
      "origin":"written by an independent sub-agent given only the property text and a scratch worktree",
      "confirmed":{"base":"/repo HEAD at confirmation time (fix commits included)","tests":f"PYTHONPATH=<wt>/src /venv/bin/python -m pytest -q -p no:cacheprovider -n 4 tests -> {tl}",
                   "demo_exit_with_change":int(dm),"demo_exit_without_change":int(db)},
      "detected_by":None}
json.dump(meta,open(f"/verif/seeded/{ID}-{TAG}{N}/meta.json","w"),indent=1)
PY
  echo "$ID-$TAG$N: KEPT"
else
  echo "$ID-$TAG$N: NOT-CONFIRMED"
fi
