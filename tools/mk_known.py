import sys, json
sys.path.insert(0,'/verif')
from simkit import kernel
from simkit.kernel import execute, NoFindings
from simkit.main import load_spec
def mk(prop, fid, cfg, ops):
    spec=load_spec(prop)
    r=execute(spec["engine"], prop, cfg=cfg, ops=ops, findings=NoFindings())
    assert r.violation is not None, (fid, r.harness_error)
    path=f"/verif/replays/known/{fid}.json"
    kernel.write_replay(path, spec["engine"].name, prop, None, cfg, ops, r.violation, extra={"ignore_findings": True, "finding_id": fid})
    print(fid, r.violation)
if __name__=="__main__":
    mk("C01","C01-row-group-mutation",{"max_steps":40},[
     {"op":"init","family":"rle","attached":False,"spec":{"cols":[{}],"rows":[{"cells":[{"v":1}]},{"cells":[{"v":2}]}],"string_attr":True,"header_rows":1}},
     {"op":"set_row","y":0,"row":{"cells":[{"v":3}]}}])
