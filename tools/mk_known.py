"""Writes replay files for known / fixed findings under replays/known/ (run by hand when an entry is added)."""
import sys, json, os
sys.path.insert(0, '/verif')
from simkit import kernel
from simkit.kernel import execute, NoFindings
from simkit.main import load_spec


def mk(prop, fid, ops, cfg=None, expect="violation"):
    cfg = cfg or {"max_steps": 40}
    spec = load_spec(prop)
    r = execute(spec["engine"], prop, cfg=cfg, ops=ops, findings=NoFindings())
    assert not r.harness_error, (fid, r.harness_error)
    if expect == "violation":
        assert r.violation is not None, fid
    else:
        assert r.violation is None, (fid, r.violation)
    path = f"/verif/replays/known/{fid}.json"
    kernel.write_replay(path, spec["engine"].name, prop, None, cfg, ops, r.violation, extra={"ignore_findings": True, "finding_id": fid, "expect": expect})
    print(fid, expect, r.violation)


RLE = lambda rows, cols=None, **kw: {"op": "init", "family": "rle", "attached": False, "spec": dict({"cols": cols or [], "rows": rows, "string_attr": True}, **kw)}
FULL = {"level": "full"}

if __name__ == "__main__":
    which = sys.argv[1:] 
    E = {}
    E["C01-row-group-mutation"] = ("C01", [RLE([{"cells": [{"v": 1}]}, {"cells": [{"v": 2}]}], header_rows=1), {"op": "set_row", "y": 0, "row": {"cells": [{"v": 3}]}}], "violation")
    E["fixed-C01-append_cell-repeated-row"] = ("C01", [RLE([{"cells": [{"v": 1}], "r": 3}]), {"op": "append_cell", "y": 1, "cell": {"v": 2}, "obs": FULL}], "pass")
    E["fixed-C01-delete_cell-repeated-row"] = ("C01", [RLE([{"cells": [{"v": 1}], "r": 3}]), {"op": "delete_cell", "c": {"x": 0, "y": 1}, "obs": FULL}], "pass")
    E["fixed-C01-column-edit-stale-row-cache"] = ("C01", [{"op": "init", "family": "prefilled", "attached": False, "w": 2, "h": 2}, {"op": "set_value", "c": {"x": 1, "y": 1}, "v": 5, "obs": FULL}, {"op": "insert_column", "x": 0, "col": None, "obs": FULL}, {"op": "delete_column", "x": 1, "obs": FULL}], "pass")
    E["fixed-C01-delete_column-short-rows"] = ("C01", [RLE([{"cells": [{"v": 1}, {"v": 2}, {"v": 3}]}, {"cells": [{"v": 4}, {"v": 5}]}], cols=[{"r": 3}]), {"op": "delete_column", "x": 0, "obs": FULL}], "pass")
    E["fixed-C01-set-repeated-over-next-runs"] = ("C01", [RLE([{"cells": [{"v": 1}]}, {"cells": [{"v": 2}]}, {"cells": [{"v": 3}], "r": 3}]), {"op": "set_row", "y": 0, "row": {"cells": [{"v": 9}], "r": 3}, "obs": FULL}], "pass")
    E["C02-live-row-repeated-setter"] = ("C02", [RLE([{"cells": [{"v": 1}]}, {"cells": [{"v": 2}]}]), {"op": "live_row_rep", "y": 0, "k": 2, "obs": FULL}], "violation")
    E["C02-live-cell-repeated-setter"] = ("C02", [RLE([{"cells": [{"v": 1}, {"v": 2}]}]), {"op": "live_cell_rep", "c": {"x": 0, "y": 0}, "k": 2, "obs": FULL}], "violation")
    E["fixed-C07-extend_rows-no-columns"] = ("C07", [{"op": "init", "family": "empty", "attached": False}, {"op": "extend_rows", "rows": [{"cells": []}], "obs": FULL}], "pass")
    E["C08-traverse-live-rows"] = ("C08", [RLE([{"cells": [{"v": 1}]}, {"cells": [{"v": 2}]}]), {"op": "probe", "getter": "traverse", "mut": "set_value", "which": 0, "v": "m1", "k": None}], "violation")
    E["fixed-C08-traverse_columns-range-repeat"] = ("C08", [{"op": "init", "family": "prefilled", "attached": False, "w": 3, "h": 1}, {"op": "probe", "getter": "traverse_columns", "start": 2, "end": 4, "mut": "style", "which": 0, "v": "m1", "k": None}], "pass")
    LAW = lambda law, **kw: dict({"op": "law", "law": law, "obs": {"level": "none"}}, **kw)
    E["C17-row-group-mutation"] = ("C17", [RLE([{"cells": [{"v": 1}]}, {"cells": [{"v": 2}]}], header_rows=1), LAW("span", area={"a": [0, 0, 0, 1]}, merge=False)], "violation")
    E["C17-csv-empty-content-sniffer"] = ("C17", [RLE([{"cells": [{"v": None}]}]), {"op": "delete_column", "x": 0, "obs": {"level": "none"}}, LAW("csv", target="none", dialect="unix")], "violation")
    E["fixed-C17-transpose-ragged"] = ("C17", [RLE([{"cells": [{"v": 1}, {"v": 2}]}, {"cells": [{"v": 3}]}]), LAW("transpose2")], "pass")
    E["fixed-C17-optimize_width-repeated-last-row"] = ("C17", [RLE([{"cells": [{"v": 1}]}, {"cells": [{"v": 2}], "r": 3}]), LAW("optimize_width")], "pass")
    E["fixed-C17-optimize_width-no-rows"] = ("C17", [{"op": "init", "family": "empty", "attached": False}, LAW("optimize_width")], "pass")
    E["fixed-C17-transpose-area-short-rows"] = ("C17", [RLE([{"cells": [{"v": 1}]}, {"cells": [{"v": 2}, {"v": 3}]}, {"cells": [{"v": 7}, {"v": 8}, {"v": 9}]}], cols=[{"r": 3}]), LAW("transpose2_area", area={"a": [1, 0, 2, 1]})], "pass")
    SAVE = lambda **kw: dict({"op": "save", "packaging": "zip", "target": "bytesio", "pretty": False}, **kw)
    E["fixed-C03-set_part-after-parse"] = ("C03", [{"op": "init", "source": "template:text"}, {"op": "touch", "part": "content"}, {"op": "set_part", "kind": "xml", "n": 1, "name": "content.xml"}, SAVE()], "pass")
    E["fixed-C03-set_part-folder-src"] = ("C03", [{"op": "init", "source": "sample:example.odt", "how": "folder", "salt": 0}, {"op": "set_part", "kind": "xml", "n": 1, "name": "meta.xml"}, {"op": "touch", "part": "meta"}, SAVE()], "pass")
    E["fixed-C03-set_part-folder-src-touched"] = ("C03", [{"op": "init", "source": "sample:simple_table.ods", "how": "folder", "salt": 2}, {"op": "set_part", "kind": "xml", "n": 0, "name": "settings.xml", "dt": 3.0}, {"op": "env_touch_source", "name": "settings.xml", "dt": 0.2, "dt2": 0.0}, {"op": "touch", "part": "settings", "dt": 0.6}], "pass")
    E["fixed-C03-flat-xml-image"] = ("C03", [{"op": "init", "source": "sample:chart.odt", "how": "path", "salt": 0}, SAVE(packaging="xml", target="path")], "pass")
    E["fixed-C04-del_part-manifest"] = ("C04", [{"op": "init", "source": "template:spreadsheet"}, {"op": "del_part", "name": "Thumbnails/thumbnail.png"}, SAVE()], "pass")
    E["fixed-C04-add_file-twice"] = ("C04", [{"op": "init", "source": "template:text"}, {"op": "add_file", "via": "path", "content": 0}, {"op": "add_file", "via": "pathobj", "content": 0}, SAVE()], "pass")
    E["fixed-C04-clone-folder"] = ("C04", [{"op": "init", "source": "sample:list.odt", "how": "folder", "salt": 0}, {"op": "clone_swap"}, SAVE()], "pass")
    E["fixed-C04-clone-drops-unsaved"] = ("C04", [{"op": "init", "source": "sample:table.odt", "how": "path", "salt": 0}, {"op": "add_file", "via": "pathobj", "content": 2}, {"op": "clone_swap"}, SAVE()], "pass")
    E["C04-empty-dir-entry-after-del_part"] = ("C04", [{"op": "init", "source": "sample:md_style.odt", "how": "path", "salt": 0}, {"op": "edit", "kind": "image", "n": 1}, {"op": "del_part", "name": "Pictures/ceddccf10506d07cc0990639e79f8c72.png"}, SAVE()], "violation")
    E["C03-rdf-default-after-torn-source"] = ("C03", [{"op": "init", "source": "sample:pagebreak.odt", "how": "path", "salt": 0}, SAVE(target="inplace", fault={"site": "writestr", "k": 1, "errno": "EACCES", "partial": False}), SAVE(target="path")], "violation")
    E["C03-folder-save-ignores-failed-rmtree"] = ("C03", [{"op": "init", "source": "sample:note.odt", "how": "folder", "salt": 6}, {"op": "del_part", "name": "Thumbnails/thumbnail.png"}, SAVE(packaging="folder", target="inplace", fault={"site": "rmtree", "k": 1, "errno": "EACCES", "partial": True})], "violation")
    E["C03-folder-save-ignores-failed-move"] = ("C03", [{"op": "init", "source": "sample:note.odt", "how": "folder", "salt": 6}, {"op": "del_part", "name": "Thumbnails/thumbnail.png"}, SAVE(packaging="folder", target="inplace", fault={"site": "move", "k": 1, "errno": "EACCES", "partial": True}, backup=True)], "violation")
    E["C03-empty-dir-entry-from-torn-folder-source"] = ("C03", [{"op": "init", "source": "template:presentation"}, SAVE(packaging="folder", target="path_noext"), {"op": "reopen", "art": 0, "salt": 2}, SAVE(packaging="folder", target="inplace", backup=True, fault={"site": "write_bytes", "k": 8, "errno": "ENOSPC", "partial": False}), {"op": "del_part", "name": "Configurations2/accelerator/current.xml"}, SAVE(target="path_noext")], "violation")
    E["C11-pretty-inline-tail-indent"] = ("C11", [{"op": "init", "source": "template:text"}, {"op": "rich_para", "xml": "<text:p>alpha<text:tab/><text:span text:style-name=\"T1\">beta</text:span></text:p>"}, {"op": "save_set", "variants": [{"packaging": "zip", "pretty": True, "target": "bytesio"}]}], "violation")
    E["fixed-C11-pretty-save-edits-memory"] = ("C11", [{"op": "init", "source": "sample:list.odt", "how": "path", "salt": 0}, {"op": "save_set", "variants": [{"packaging": "folder", "pretty": None, "target": "path"}]}], "pass")
    E["fixed-C13-table-displayed-clones-default-style"] = ("C13", [{"op": "init", "source": "template:spreadsheet"}, {"op": "open_other", "source": "sample:example.odt"}, {"kind": "para", "n": 0, "op": "edit"}, {"op": "merge"}, {"displayed": True, "op": "table_displayed", "table": 1, "times": 1}, {"family": "table", "kind": "default", "n": 0, "name": "Heading_20_1", "name_via": "ctor", "op": "ins_style", "target": "main"}], "pass", {"focus_families": ["percentage", "table-column", "table"], "max_saves": 10, "max_steps": 40, "p_clock": 0.0, "p_fault": 0.0, "p_reopen": 0.3, "p_save": 0.4, "p_touch": 0.2, "src_family": "template"})
    E["fixed-C04-add_file-suffix-not-xml-text"] = ("C04", [{"op": "init", "source": "sample:base_shapes.odg", "salt": 4}, {"op": "add_file", "via": "path_odd", "content": 3}, SAVE()], "pass")
    E["C09-strip-squeezes-raw-blank-runs"] = ("C09", [{"op": "init", "kind": "Paragraph", "text": " delta Ab \n alpha\nchat"}, {"op": "markup", "what": "set_link", "n": 0, "regex": "\\w+"}, {"op": "markup", "what": "set_link", "n": 0, "offset": 0, "length": 0}, {"op": "markup", "what": "delete_inline", "n": 0, "idx": 2}, {"op": "markup", "what": "remove_links", "n": 0}], "violation")
    E["fixed-C11-mimetype-setter-folder-source"] = ("C11", [{"op": "init", "source": "sample:toc_done.odt", "how": "folder", "salt": 2}, {"op": "set_mimetype", "dt": 0.6}, {"op": "save_set", "variants": [{"packaging": "xml", "pretty": False, "target": "bytesio"}]}], "pass")
    E["C04-failed-inplace-folder-save-loses-document"] = ("C04", [{"op": "init", "source": "sample:md_fixed.odt", "how": "folder", "salt": 8}, SAVE(packaging="folder", target="inplace", backup=True, fault={"site": "mkdir", "k": 1, "errno": "ENOSPC", "partial": True}), SAVE(target="path")], "violation")
    DCFG = {"max_steps": 40, "leg": "D"}
    E["fixed-C10-xmlpart-clone-stale"] = ("C10", [{"op": "init", "source": "template:spreadsheet"}, {"op": "add_file", "via": "bytesio", "content": 1}, {"op": "clone_part", "part": "manifest", "n": 1}], "pass", DCFG)
    E["fixed-C10-document-clone-drops-unsaved"] = ("C10", [{"op": "init", "source": "sample:example.odt", "how": "path", "salt": 0}, {"op": "edit", "kind": "para", "n": 1}, {"op": "set_part", "kind": "new", "n": 2, "name": "Extra/blob2.bin"}, {"op": "clone_doc"}], "pass", DCFG)
    E["C03-original-reads-overwritten-source-at-save"] = ("C03", [{"op": "init", "source": "sample:example.odt", "how": "path", "salt": 0}, SAVE(target="path"), {"op": "reopen", "art": 0, "how": "path", "salt": 0}, {"op": "clone_swap"}, {"op": "add_file", "via": "path", "content": 2}, SAVE(target="existing", existing=0), {"op": "save_other"}], "violation")
    E["C13-drawing-page-common-default-lookup"] = ("C13", [{"op": "init", "source": "template:text"}, {"op": "ins_style", "family": "drawing-page", "n": 1, "target": "main", "kind": "common", "name": "simA", "name_via": "ctor"}], "violation")
    E["C13-merge-twice-duplicates-draw-named-styles"] = ("C13", [{"op": "init", "source": "template:text"}, {"op": "open_other", "source": "sample:example.odp"}, {"op": "merge"}, {"op": "merge"}], "violation")
    E["C13-merge-familyless-element-deletes-default-style"] = ("C13", [{"op": "init", "source": "sample:simple_table_named_range.ods", "how": "path", "salt": 0}, {"op": "open_other", "source": "sample:example.odp"}, {"op": "merge"}], "violation")
    E["fixed-C13-merge-empties-source"] = ("C13", [{"op": "init", "source": "template:spreadsheet"}, {"op": "open_other", "source": "sample:example.odt"}, {"op": "merge"}], "pass")
    E["fixed-C13-insert_style-name-argument"] = ("C13", [{"op": "init", "source": "template:text"}, {"op": "ins_style", "family": "list", "n": 1, "target": "main", "kind": "common", "name": "simA", "name_via": "arg"}, {"op": "ins_style", "family": "table-cell", "n": 2, "target": "main", "kind": "default", "name": "simB", "name_via": "arg"}], "pass")
    E["fixed-C15-markdown-export-optimizes-live-tables"] = ("C15", [{"op": "init", "source": "template:text"}, {"op": "edit", "kind": "table", "n": 6}, {"op": "read", "entries": ["doc.to_markdown"]}], "pass")
    E["fixed-C20-toc-entry-trailing-line-break"] = ("C20", [{"op": "init", "toc_at": "first", "outline": 0}, {"op": "add_heading", "n": 1, "level": 1, "text": "Title 1"}, {"op": "fill", "n": 2, "via": "attached", "default_styles": True}], "pass")
    E["C04-original-reads-overwritten-source-at-save"] = ("C04", [{"op": "init", "source": "sample:span_style.odt", "how": "path", "salt": 7}, SAVE(target="inplace"), {"op": "clone_swap"}, {"op": "add_file", "via": "chunked", "content": 2}, SAVE(target="existing", existing=0), {"op": "save_other"}], "violation")
    E["C10-original-reads-overwritten-source-at-save"] = ("C10", [{"op": "init", "source": "sample:frame_image.odp", "how": "path", "salt": 9}, {"op": "clone_doc"}, {"op": "add_file", "via": "image", "content": 1, "on": "twin"}, {"op": "twin_save_over_source"}, {"op": "twin_package_check"}], "violation", DCFG)
    E["fixed-C11-pretty-save-raises-on-comment"] = ("C11", [{"op": "init", "source": "template:text"}, {"op": "set_part", "kind": "xml", "n": 1, "name": "settings.xml"}, {"op": "save_set", "variants": [{"packaging": "zip", "pretty": True, "target": "bytesio"}]}], "pass")
    E["C01-col-group-mutation"] = ("C01", [RLE([{"cells": [{"v": 1}]}], wrap_cols="columns"), {"op": "set_cell", "c": {"x": 1, "y": 0}, "cell": {"v": 3}}], "violation")
    E["C17-col-group-mutation"] = ("C17", [RLE([{"cells": [{"v": "s2"}]}], cols=[{}, {}], wrap_cols="header"), LAW("span", pre=["rstrip_aggr"], area={"a": [2, 0, 4, 1]}, merge=False)], "violation")
    E["C03-failed-inplace-folder-save-loses-document"] = ("C03", [{"op": "init", "source": "sample:simple_table_named_range.ods", "how": "folder", "salt": 0}, SAVE(packaging="folder", target="inplace", fault={"site": "mkdir", "k": 1, "errno": "EIO", "partial": True}), SAVE(packaging="folder", target="path")], "violation")
    for fid, ent in E.items():
        prop, ops, expect = ent[:3]
        cfg = ent[3] if len(ent) > 3 else None
        if which and fid not in which:
            continue
        mk(prop, fid, ops, cfg=cfg, expect=expect)
