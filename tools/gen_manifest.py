"""Regenerates MANIFEST.json from the list of built checks (props/Cxx.py present)."""
import json, os
V = os.path.dirname(os.path.dirname(os.path.abspath(__file__)))
NA = {
 "C06": "pure function of one value and one carrier (encode -> attribute string -> decode): no schedule, clock, fault or history enters it; its save/reopen leg reduces to C03. Not a simulation target (DESIGN §7).",
 "C12": "pure function of (element class, constructor arguments): registry enumeration and type-directed argument generation, no state, time, I/O or ordering (DESIGN §7).",
 "C14": "depends only on the characters of one identifier string (XPath quoting): no history, schedule or fault (DESIGN §7).",
 "C16": "pure function of (element tree, pattern, replacement) evaluated in one call (DESIGN §7).",
 "C18": "pure codecs: encode/decode of single values (DESIGN §7).",
 "C19": "pure parsing/formatting of coordinates and addresses (DESIGN §7).",
}
TEXT = {
 "C01": ("T", "seeded simulation of editing histories against an uncompressed grid reference model, comparison after every step, restart ops, ddmin replay files", "§6 C01"),
 "C02": ("T", "seeded simulation of read/mutation interleavings; after every step the live table is compared with a fresh parse of its own XML, an independent lxml expansion, and a save+reload", "§6 C02"),
 "C03": ("D", "seeded simulation of document histories over a simulated file system/clock (lazy vs eager loading, mtime cache, listing order, error faults with fail-stop oracle); package compared part by part with the pre-save snapshot", "§6 C03"),
 "C04": ("D", "seeded simulation of package histories (add_file, del_part, clone, merge, save, reopen) with an independent zip/manifest inspector on every saved artefact", "§6 C04"),
 "C05": ("P", "seeded append histories + restarts against a string model and an independent ODF white-space interpreter", "§6 C05"),
 "C07": ("T", "seeded simulation of editing histories with a structural XML invariant checked after every step", "§6 C07"),
 "C08": ("T", "seeded histories of read -> mutate returned object -> read with a held-object pool", "§6 C08"),
 "C09": ("P", "seeded markup insertion/removal histories + restarts against a text+marks model", "§6 C09"),
 "C10": ("T+D", "two interleaved seeded histories on clone twins (tables, rows, cells; documents with lazily loaded parts); the untouched twin is re-observed after every op", "§6 C10"),
 "C11": ("D", "seeded schedules of saves under every configuration over the simulated file system, memory snapshot before/after, error faults", "§6 C11"),
 "C13": ("D", "seeded style-operation histories + reopen against a style population model", "§6 C13"),
 "C15": ("D", "seeded orders of read-only entry points interleaved with saves/restarts; all parts snapshotted before/after; process-global export state watched", "§6 C15"),
 "C17": ("T", "seeded compositions of whole-table transformations; algebraic laws checked over the recorded history", "§6 C17"),
 "C20": ("P", "seeded heading/TOC edit histories + fill + restarts against an outline model", "§6 C20"),
}
checks = []
na = [{"property_id": k, "reason": v} for k, v in sorted(NA.items())]
for pid in sorted(TEXT):
    if not os.path.exists(os.path.join(V, "props", pid + ".py")):
        na.append({"property_id": pid, "reason": "claimed in DESIGN.md but its check is not built yet in this commit; not claimed until it is"})
        continue
    eng, tech, ref = TEXT[pid]
    checks.append({
        "property_id": pid,
        "quick_cmd": f"./check {pid} quick",
        "thorough_cmd": f"./check {pid} thorough",
        "evidence_file": f"evidence/{pid}.json",
        "replay_cmd_template": "./check replay {path}",
        "engine": eng,
        "level_claimed": {"category": "exploration", "text": "Seeded search over operation histories / schedules / fault placements (sampling, not enumeration): a clean batch is evidence that the property holds on the explored histories, not a proof. Every failure is minimised and written as a replay file that reproduces without a PRNG.", "design_ref": ref},
        "level_note": "trusted: the reference models (engines/grid.py etc.), the independent readers in simkit/xmlref.py (lxml/zipfile only), lxml itself; bounded sizes and step counts; known findings listed in known_findings.json are reported as KNOWN-FINDING and resynchronised past",
        "technique": "deterministic simulation: " + tech,
    })
na.sort(key=lambda d: d["property_id"])
m = {
 "version": 1,
 "setup_cmd": "/venv/bin/python -B -c \"import lxml, sys; sys.path.insert(0, '/repo/src'); import odfdo; print('odfdo', odfdo.__version__, 'lxml ok')\"",
 "hooks": {"guard": "ODFDO_VERIF", "enable": "none needed: every seam is a module-level name or an argument and is patched from outside for the duration of a run (DESIGN §2); checks import odfdo from /repo/src via PYTHONPATH", "baseline_off_cmd": "cd /repo && /venv/bin/python -m pytest -q -p no:cacheprovider --timeout=900 tests", "source_commits": [], "add_only": True},
 "engines": [
   {"name": "T", "path": "engines/table_engine.py", "serves_properties": ["C01", "C02", "C07", "C08", "C10", "C17"], "kind_free_text": "table histories: real odfdo Table stepped next to a grid model / independent XML expansion"},
   {"name": "D", "path": "engines/doc_engine.py", "serves_properties": ["C03", "C04", "C10", "C11", "C13", "C15"], "kind_free_text": "document/package histories over a simulated file system and clock with fault injection"},
   {"name": "P", "path": "engines/text_engine.py", "serves_properties": ["C05", "C09", "C20"], "kind_free_text": "paragraph / heading / TOC histories against string and outline models"},
 ],
 "checks": checks,
 "not_applicable": na,
 "notes": "See DESIGN.md. Exit codes of ./check: 0 held (KNOWN-FINDING lines allowed), 1 VIOLATION, 2 harness trouble (never on the unchanged tree). A replay file holds the concrete operation list of one run (no PRNG at replay) and, when the failure depends on process state left by earlier runs of the same process, those runs as 'prelude'. Known findings: known_findings.json (open entries are reported as KNOWN-FINDING and resynchronised past; fixed entries are replayed as regressions by every check). Seeded changes used to measure sensitivity: seeded/ (DESIGN section 15).",
}
json.dump(m, open(os.path.join(V, "MANIFEST.json"), "w"), indent=1)
print("checks:", [c["property_id"] for c in checks])
