#!/bin/bash
# tools/thorough_all.sh [props...]  — every thorough check once; prints the summary line or the violation of each
cd "$(dirname "$0")/.."
PROPS=${@:-C01 C02 C03 C04 C05 C07 C08 C09 C10 C11 C13 C15 C17 C20}
for p in $PROPS; do
  out=$(./check $p thorough 2>&1); rc=$?
  echo "$p thorough exit=$rc $(echo "$out" | grep -m1 -E "^$p thorough:")"
  if [ $rc -ne 0 ]; then echo "$out" | grep -E "^(violation|VIOLATION|HARNESS|minimised|    \{)" | head -20; mkdir -p soak_out; cp replays/$p-*.json soak_out/ 2>/dev/null; fi
done
