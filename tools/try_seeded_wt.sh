#!/bin/bash
# tools/try_seeded_wt.sh <patch.diff> <Cxx> [tier]  — like try_seeded.sh but without touching /repo: the change is applied in
# a scratch worktree (/tmp/wt/try.$$, removed afterwards) and the check imports odfdo from there (VERIF_REPO_SRC).
# For development only (the registered commands always run against /repo itself).
set -u
P=$(realpath "$1"); PROP=$2; TIER=${3:-quick}
WT=/tmp/wt/try.$$
git -C /repo worktree add -q --detach "$WT" HEAD || exit 2
cd "$WT"
if ! git apply "$P" 2>/dev/null; then
  if ! patch -p1 -s --no-backup-if-mismatch < "$P"; then echo "PATCH-DOES-NOT-APPLY $P"; cd /; git -C /repo worktree remove --force "$WT"; exit 3; fi
fi
cd /verif && VERIF_REPO_SRC=$WT/src VERIF_EVIDENCE_DIR=/tmp/try_evidence.$$ ./check "$PROP" "$TIER" > /tmp/try_seeded.$$.log 2>&1; rc=$?
grep -E "^(VIOLATION|violation:|C[0-9]+ (quick|thorough):|HARNESS|regression)" /tmp/try_seeded.$$.log | cut -c1-420 | head -8
echo "exit=$rc"
rm -rf /tmp/try_seeded.$$.log /tmp/try_evidence.$$
cd /; git -C /repo worktree remove --force "$WT"
exit $rc
