#!/bin/bash
# tools/try_seeded.sh <patch.diff> <Cxx> [tier]  — apply a seeded change to /repo, run the check, undo.
set -u
P=$(realpath "$1"); PROP=$2; TIER=${3:-quick}
cd /repo || exit 2
if ! git diff --quiet; then echo "repo dirty"; exit 2; fi
if ! git apply "$P" 2>/dev/null; then
  if ! patch -p1 -s --no-backup-if-mismatch < "$P"; then echo "PATCH-DOES-NOT-APPLY $P"; git checkout -- . ; exit 3; fi
fi
cd /verif && ./check "$PROP" "$TIER" > /tmp/try_seeded.$$.log 2>&1; rc=$?
grep -E "^(VIOLATION|violation:|C[0-9]+ (quick|thorough):|HARNESS|regression)" /tmp/try_seeded.$$.log | head -8
echo "exit=$rc"
rm -f /tmp/try_seeded.$$.log
cd /repo && git checkout -- . && git clean -fdq src
exit $rc
