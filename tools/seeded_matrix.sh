#!/bin/bash
# tools/seeded_matrix.sh [tier] [id-regex]  — run every kept seeded change against its property's check, record the outcome
# in seeded/<id>/meta.json ("detected_by") and print a table. /repo is restored after each one.
TIER=${1:-quick}; FILTER=${2:-}
cd /verif
for d in seeded/*/; do
  id=$(basename $d)
  if [ -n "$FILTER" ] && ! echo "$id" | grep -qE "$FILTER"; then continue; fi
  prop=$(python3 -c "import json;print(json.load(open('$d/meta.json'))['property'])")
  cd /repo
  if ! git diff --quiet; then echo "repo dirty"; exit 2; fi
  if ! git apply "/verif/$d/patch.diff" 2>/dev/null; then
    if ! patch -p1 -s --no-backup-if-mismatch < "/verif/$d/patch.diff" >/dev/null 2>&1; then
      git checkout -- . ; git clean -fdq src
      echo "$id $prop PATCH-DOES-NOT-APPLY"; cd /verif
      python3 - "$d" <<'PY'
import json,sys
p=sys.argv[1]+"/meta.json"; m=json.load(open(p)); m["detected_by"]={"status":"patch does not apply to the current tree (code repaired since)"}; json.dump(m,open(p,"w"),indent=1)
PY
      continue
    fi
  fi
  cd /verif
  out=$(./check $prop $TIER 2>&1); rc=$?
  cd /repo && git checkout -- . && git clean -fdq src; cd /verif
  viol=$(echo "$out" | grep -m1 "^violation:" | cut -c1-300)
  [ -z "$viol" ] && viol=$(echo "$out" | grep -m1 "^regression:" | cut -c1-300)
  sumline=$(echo "$out" | grep -m1 -E "^$prop $TIER:")
  also=""
  if [ $rc -ne 1 ]; then
    # not caught by its own property's check: the checks named in meta.json "try_also" (another property the change breaks too)
    for p2 in $(python3 -c "import json;print(' '.join(json.load(open('$d/meta.json')).get('try_also',[])))"); do
      cd /repo && { git apply "/verif/$d/patch.diff" 2>/dev/null || patch -p1 -s --no-backup-if-mismatch < "/verif/$d/patch.diff" >/dev/null 2>&1; }; cd /verif
      out2=$(./check $p2 $TIER 2>&1); rc2=$?
      cd /repo && git checkout -- . && git clean -fdq src; cd /verif
      if [ $rc2 -eq 1 ]; then also="$p2: $(echo "$out2" | grep -m1 "^violation:" | cut -c1-200)"; break; fi
    done
  fi
  echo "$id $prop exit=$rc $viol ${also:+[also: $also]}"
  python3 - "$d" "$rc" "$viol" "$sumline" "$TIER" "$also" <<'PY'
import json,sys
d,rc,viol,sumline,tier,also=sys.argv[1:7]
p=d+"/meta.json"; m=json.load(open(p))
m["detected_by"]={"check":f"./check {m['property']} {tier}","exit":int(rc),"detected":int(rc)==1,"violation":viol,"run":sumline}
if also:
    m["detected_by"]["detected_by_other_check"]=also
json.dump(m,open(p,"w"),indent=1)
PY
done
