#!/bin/bash
# tools/soak.sh <first_seed> <n_seeds> [tier]  — every check under several VERIF_SEED values; prints anything that is not exit 0
cd "$(dirname "$0")/.."
A=${1:-100}; N=${2:-5}; TIER=${3:-quick}
for ((s=A; s<A+N; s++)); do
  for p in C01 C02 C03 C04 C05 C07 C08 C09 C10 C11 C13 C15 C17 C20; do
    out=$(VERIF_SEED=$s ./check $p $TIER 2>&1); rc=$?
    line=$(echo "$out" | grep -m1 -E "^$p $TIER:")
    if [ $rc -ne 0 ]; then
      echo "SEED=$s $p exit=$rc"; echo "$out" | grep -E "^(violation|VIOLATION|HARNESS|minimised|    \{)" | head -20
      mkdir -p soak_out; cp replays/$p-*.json soak_out/ 2>/dev/null
    else
      echo "SEED=$s $p ok $line"
    fi
  done
done
