"""C13 — styles land in the right container, stay unique by family+name, are
found again (DESIGN §6 C13).  Ops and oracles used by DocEngine when the
property is C13."""
from __future__ import annotations

import io

from lxml import etree

from simkit import xmlref
from simkit.kernel import Violation

STD_FAMILIES = ["paragraph", "text", "table", "table-cell", "table-row", "table-column", "graphic", "section", "presentation", "drawing-page", "chart", "ruby"]
DEFAULT_OK = {"paragraph", "text", "section", "table", "table-column", "table-row", "table-cell", "chart", "drawing-page", "graphic", "presentation", "ruby"}
XML_FAMILIES = {
    "master-page": '<style:master-page style:name="{name}" style:page-layout-name="Mpm1"/>',
    "font-face": '<style:font-face style:name="{name}" svg:font-family="&apos;Sim Sans {n}&apos;" style:font-family-generic="swiss"/>',
    "page-layout": '<style:page-layout style:name="{name}"><style:page-layout-properties fo:page-width="21cm" fo:margin-top="{n}mm"/></style:page-layout>',
    "list": '<text:list-style style:name="{name}"><text:list-level-style-bullet text:level="1" text:bullet-char="{n}"/></text:list-style>',
    "number": '<number:number-style style:name="{name}"><number:number number:decimal-places="{d}" number:min-integer-digits="1"/></number:number-style>',
    "percentage": '<number:percentage-style style:name="{name}"><number:number number:decimal-places="{d}"/><number:text>%</number:text></number:percentage-style>',
    "date": '<number:date-style style:name="{name}"><number:year/><number:text>-{n}-</number:text><number:month/></number:date-style>',
    "time": '<number:time-style style:name="{name}"><number:hours/><number:text>:{n}:</number:text><number:minutes/></number:time-style>',
    "boolean": '<number:boolean-style style:name="{name}"><number:boolean/><number:text>{n}</number:text></number:boolean-style>',
    "currency": '<number:currency-style style:name="{name}"><number:number number:decimal-places="{d}"/><number:currency-symbol>E{n}</number:currency-symbol></number:currency-style>',
    "outline": '<text:outline-style style:name="{name}"><text:outline-level-style text:level="1" style:num-format="{d}"/></text:outline-style>',
}
CONTAINERS = ["office:styles", "office:automatic-styles", "office:master-styles", "office:font-face-decls"]
TAG2FAM = {
    "number:number-style": "number", "number:percentage-style": "percentage", "number:date-style": "date", "number:time-style": "time",
    "number:boolean-style": "boolean", "number:currency-style": "currency", "text:list-style": "list", "text:outline-style": "outline",
    "style:master-page": "master-page", "style:font-face": "font-face", "style:page-layout": "page-layout",
    "style:presentation-page-layout": "presentation-page-layout", "draw:marker": "marker", "draw:fill-image": "fill-image",
}


def _pref(tag):
    for p, u in xmlref.NSMAP.items():
        if tag.startswith("{%s}" % u):
            return p + ":" + tag.split("}", 1)[1]
    return tag


def population(doc) -> dict:
    """independent count of style definitions: {(part, container, tag, family, name): [c14n, ...]}"""
    pop = {}
    for part in ("content", "styles"):
        root = etree.fromstring(doc.get_part(part).serialize())
        for cname in CONTAINERS:
            for cont in root.iter(xmlref.q(cname)):
                for el in cont:
                    if not isinstance(el.tag, str):
                        continue
                    tag = _pref(el.tag)
                    fam = el.get(xmlref.q("style:family")) or TAG2FAM.get(tag, "")
                    name = el.get(xmlref.q("style:name")) or el.get(xmlref.q("draw:name"))
                    key = (part, cname, tag, fam, name)
                    pop.setdefault(key, []).append(xmlref.c14n(el))
    return pop


def expected_place(family, automatic, default):
    if family == "master-page":
        return ("styles", "office:master-styles")
    if family == "font-face":
        return ("styles", "office:font-face-decls") if default else ("content", "office:font-face-decls")
    if family == "page-layout":
        return ("styles", "office:automatic-styles")
    if automatic:
        return ("content", "office:automatic-styles")
    return ("styles", "office:styles")


def gen_insert(eng, rng, n, target="main"):
    fam = rng.weighted([(f, 3) for f in STD_FAMILIES[:8]] + [(f, 1) for f in STD_FAMILIES[8:]] + [(f, 1.5) for f in XML_FAMILIES], "family")
    focus = eng.cfg.get("focus_families")
    if focus and rng.chance(0.7, "focus?"):
        fam = rng.choice(focus, "focusfam")
    op = {"op": "ins_style", "family": fam, "n": n, "target": target}
    kind = rng.weighted([("common", 5), ("automatic", 5), ("default", 1.5)], "skind")
    if fam in XML_FAMILIES:
        kind = "common" if fam in ("master-page", "page-layout") else rng.choice(["common", "automatic"], "xkind")
        if fam == "font-face" and rng.chance(0.3, "ffdefault"):
            kind = "default"
    if kind == "default" and fam not in DEFAULT_OK and fam != "font-face":
        kind = "common"
    op["kind"] = kind
    # names: small pool so that the same name comes back (replacement), in several families
    named = rng.chance(0.8, "named") or kind == "common"
    if kind == "automatic" and not rng.chance(0.5, "autonamed"):
        named = False
    if fam in XML_FAMILIES:
        # these definitions are addressed by name only: an unnamed one is not a valid input - except as an AUTOMATIC
        # style of the data / list families, which insert_style names itself (odfdo_auto_N)
        named = not (kind == "automatic" and fam in ("list", "number", "percentage", "date", "time", "boolean", "currency") and rng.chance(0.5, "xml_unnamed"))
    if named:
        # (style names are unique per family across common and automatic styles in ODF:
        # the two kinds draw from disjoint pools; both pools repeat across families)
        pool = ["simA", "simB", "Standard", "Heading_20_1"] if kind != "automatic" else ["P1", "T1", "odfdo_auto_2", "odfdo_auto_7", "ta1"]
        if kind != "automatic" and rng.chance(0.2, "oddname"):
            # (style:name is an NCName: no blanks, quotes, &, <, > - names with those are not valid inputs.)
            # A non-ASCII NCName; a style shown to the user under another name (style:display-name) and a
            # second style whose NAME is that display name: two different styles
            pool = ["Überschrift-1.a", "simInt", "simShown"]
        # simX / simY: common names in the receiving document that the other document may hold as
        # automatic styles of its styles.xml (each document valid on its own); once such a style has
        # been merged in, giving a common style that name again would be the caller's mistake
        if kind != "automatic" and target == "main" and "merged_styles_xml_automatic" not in eng.flags:
            pool = pool + ["simX", "simY"]
        if fam == "font-face":
            # font faces are declared per part (content.xml and styles.xml each have their
            # own office:font-face-decls, usually with the same names): separate pools, so
            # that the document-level lookup has one candidate
            pool = ["simFA", "simFB"] if kind == "default" else ["simFC", "simFD", "Liberation Sans"]  # (the last one: declared in BOTH parts of every template)
            used = getattr(eng, "ff_content_names", {}).get(target, set())
            if kind == "default":
                pool = [x for x in pool if x not in used] or ["simFE"]  # (a name content.xml declares too would make the document-level lookup answer with that one)

        op["name"] = rng.choice(pool, "sname")
        op["name_via"] = rng.choice(["ctor", "arg"], "name_via")
    if fam in FACTORY_FAMILIES and kind == "common" and rng.chance(0.35, "factory?"):
        # the library's own predefined data styles (odfdo.style.default_*_style()), each call a new element
        op["factory"] = True
        op["name"] = f"lpod-default-{fam}-style"
        op["name_via"] = "ctor"
    return op


FACTORY_FAMILIES = ("number", "percentage", "time", "date", "boolean", "currency")


def build_style(op):
    from odfdo import Element, Style

    fam, n = op["family"], op["n"]
    if op.get("factory"):
        from odfdo import style as _style_module

        return getattr(_style_module, f"default_{fam}_style")()
    name = op.get("name") if op.get("name_via", "ctor") == "ctor" else None
    if fam in XML_FAMILIES:
        xml = XML_FAMILIES[fam].format(name=name or "", n=n, d=n % 4)
        if not name:
            xml = xml.replace(' style:name=""', "")
        return Element.from_tag(xml)
    kw = {}
    if fam in ("paragraph", "text"):
        kw = {"area": "text", "bold": bool(n % 2), "color": "#%06x" % (n * 7919 % 0xFFFFFF)}
    elif fam == "table-cell":
        kw = {"background_color": "#%06x" % (n * 104729 % 0xFFFFFF)}
    elif fam == "table-row":
        kw = {"height": f"{5 + n % 9}mm"}
    elif fam == "table-column":
        kw = {"width": f"{10 + n % 9}mm"}
    st = Style(fam, name=name, **kw)
    st.set_attribute("style:class", f"sim{n}")  # makes every inserted definition distinguishable
    if op.get("name") == "simInt":
        st.set_attribute("style:display-name", "simShown")
    return st


def target_is_main(eng, doc):
    return doc is eng.sut.doc


def run_insert(eng, op, doc, feats):
    """returns list[Violation]"""
    fam, kind = op["family"], op["kind"]
    automatic, default = kind == "automatic", kind == "default"
    try:
        before = population(doc)
        style = build_style(op)
    except Exception:
        eng.stats.probe("c13_prep_raised")
        return []
    kw = {}
    if op.get("name") and op.get("name_via") == "arg":
        kw["name"] = op["name"]
    if automatic:
        kw["automatic"] = True
    if default:
        kw["default"] = True
    f = feats + ["family:" + fam, "kind:" + kind] + (["named"] if op.get("name") else ["unnamed"])
    try:
        ret = doc.insert_style(style, **kw)
    except Exception as e:
        if not op.get("name") and kind == "common":
            eng.stats.probe("c13_unnamed_common_rejected")
            return []  # "The style is expected to be a common style with a name"
        return [Violation("C13", "insert-raises", "ins_style", f, type(e).__name__, f"{type(e).__name__}: {e}")]
    eng.stats.probe("ins_style:" + kind)
    after = population(doc)
    part, cont = expected_place(fam, automatic, default)
    want_name = None if (default and fam != "font-face") else ret
    tagname = "style:default-style" if (default and fam != "font-face") else _pref(style._Element__element.tag)
    key = (part, cont, tagname, fam, want_name)
    inserted = xmlref.c14n(style._Element__element)
    if key not in after:
        where = [k for k, v in after.items() if inserted in v]
        return [Violation("C13", "wrong-container", "ins_style", f, None, f"expected in {part}/{cont} as {tagname} name={want_name!r}; found at {where[:2]}")]
    if len(after[key]) != 1:
        return [Violation("C13", "duplicate", "ins_style", f, None, f"{len(after[key])} definitions of {key}")]
    if after[key][0] != inserted:
        return [Violation("C13", "not-the-inserted-definition", "ins_style", f, None, f"{key} holds another definition")]
    # generated automatic names never collide with existing ones
    if automatic and not op.get("name") and fam not in ("font-face",):
        f = f + ["generated_name"]
        clash = [k for k in before if k[3] == fam and k[4] == ret]
        if clash:
            return [Violation("C13", "generated-name-collides", "ins_style", f, None, f"generated name {ret!r} already used by {clash[:2]}")]
    # nothing else changed (the replaced definition apart)
    for k, v in before.items():
        if k == key:
            continue
        if after.get(k) != v:
            return [Violation("C13", "other-style-changed", "ins_style", f, None, f"{k} changed while inserting {key}")]
    extra = [k for k in after if k not in before and k != key]
    if extra:
        return [Violation("C13", "other-style-changed", "ins_style", f, None, f"unexpected new entries {extra[:2]}")]
    # lookup finds exactly that style
    v = check_lookup(doc, fam, ret, default, inserted, f, "ins_style")
    if v:
        return [v]
    # ... also under the very name insert_style returned (None for a default style)
    try:
        got = doc.get_style(fam, ret)
    except Exception as e:
        return [Violation("C13", "lookup-raises", "ins_style", f + ["by_returned_name"], type(e).__name__, str(e))]
    if got is None or xmlref.c14n(got._Element__element) != inserted:
        return [Violation("C13", "returned-name-does-not-find-the-style", "ins_style", f, None,
                          f"insert_style returned {ret!r}; get_style({fam!r}, {ret!r}) gives {'nothing' if got is None else 'another definition'}")]
    if fam == "font-face" and not default:
        d_ = dict(getattr(eng, "ff_content_names", {}))
        k_ = "main" if target_is_main(eng, doc) else "other"
        d_[k_] = set(d_.get(k_, set())) | {ret}
        eng.ff_content_names = d_
    eng.c13_inserted.append({"family": fam, "name": ret, "default": default, "c14n": inserted, "key": key})
    return []


def check_lookup(doc, fam, name, default, inserted, feats, opname):
    if default and fam != "font-face":
        try:
            got = doc.get_style(fam)
        except Exception as e:
            return Violation("C13", "lookup-raises", opname, feats, type(e).__name__, str(e))
    else:
        if not name:
            return None
        try:
            got = doc.get_style(fam, name)
        except Exception as e:
            return Violation("C13", "lookup-raises", opname, feats, type(e).__name__, str(e))
    if got is None:
        return Violation("C13", "lookup-misses", opname, feats, None, f"get_style({fam!r}, {name!r}) returned None")
    if xmlref.c14n(got._Element__element) != inserted:
        return Violation("C13", "lookup-finds-another", opname, feats, None, f"get_style({fam!r}, {name!r}) returned a different definition")
    return None


def run_merge(eng, op, doc, other, feats):
    try:
        mine = population(doc)
        theirs = population(other)
    except Exception:
        return []
    try:
        doc.merge_styles_from(other)
    except NotImplementedError:
        eng.stats.probe("c13_merge_not_implemented")
        return []
    except Exception as e:
        return [Violation("C13", "merge-raises", "merge", feats, type(e).__name__, f"{type(e).__name__}: {e}")]
    eng.stats.probe("merge_styles")
    theirs_after = population(other)
    if theirs_after != theirs:
        lost = sum(len(v) for v in theirs.values()) - sum(len(v) for v in theirs_after.values())
        return [Violation("C13", "merge-modified-source", "merge", feats, None, f"the other document changed: {lost} style definitions fewer than before the merge")]
    after = population(doc)
    # union, the other document's definitions winning (same part, container, tag, family, name)
    for k, v in theirs.items():
        if k[4] is None and k[2] != "style:default-style":
            continue
        if after.get(k) != v[-1:]:
            if k in after and len(after[k]) > 1:
                return [Violation("C13", "duplicate", "merge", feats + ["family:" + k[3]] + (["draw_named"] if k[2].startswith("draw:") else []), None, f"{len(after[k])} definitions of {k} after merge")]
            extra = ["source_has_unnamed_familyless_element"] if any(t[3] == "" and t[4] is None for t in theirs) else []
            extra += ["lost_is_default_style"] if k[2] == "style:default-style" else []
            return [Violation("C13", "merge-not-union", "merge", feats + ["family:" + k[3]] + extra, None, f"{k}: the other document's definition is not the one in place after the merge")]
    # ... and the lookup finds the other document's definition under every (family, name) it brought
    seen = set()
    for k, v in theirs.items():
        fam, name = k[3], k[4]
        if not fam or not name or (fam, name) in seen or k[2].startswith("draw:") or fam in ("drawing-page",):
            continue
        seen.add((fam, name))
        same = [t for t in theirs if t[3] == fam and t[4] == name]
        if len(same) != 1:
            continue  # the other document itself defines it in several places (font faces, per-part automatic styles)
        try:
            got = doc.get_style(fam, name)
        except Exception as e:
            return [Violation("C13", "lookup-raises", "merge", feats + ["family:" + fam], type(e).__name__, str(e))]
        if got is None or xmlref.c14n(got._Element__element) != v[-1]:
            clash = [m for m in mine if m[3] == fam and m[4] == name and m != k]
            return [Violation("C13", "merge-other-does-not-win", "merge", feats + ["family:" + fam] + (["cross_container_collision"] if clash else []), None,
                              f"after the merge get_style({fam!r}, {name!r}) does not return the other document's definition (receiving document had it at {clash[:2]})")]
    for k, v in mine.items():
        if k in theirs:
            continue
        # same (family, name) may have been defined by the other document elsewhere: then it was replaced
        if any(t[3] == k[3] and t[4] == k[4] and t[0] == k[0] for t in theirs):
            continue
        if after.get(k) != v:
            extra = ["source_has_unnamed_familyless_element"] if any(t[3] == "" and t[4] is None for t in theirs) else []
            extra += ["lost_is_default_style"] if k[2] == "style:default-style" else []
            return [Violation("C13", "merge-lost-own-style", "merge", feats + ["family:" + k[3]] + extra, None, f"{k} of the receiving document changed or disappeared")]
    return []
