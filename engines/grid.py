"""Reference model for engine T: an uncompressed, uncached list-of-lists grid.

Semantics are taken from the public docstrings of odfdo.table.Table / Row
(DESIGN §5.1).  No run-length encoding, no position maps, no caching.
Rows may be ragged (a row is exactly as long as what was put into it);
the table width is the number of declared columns and never less than the
longest row.  Cells are xmlref.CellV records (value, style, covered, spans).
"""
from __future__ import annotations

from simkit.xmlref import CellV, TableView


class Rejects(Exception):
    """The documented API refuses this call (the SUT must raise too)."""


def cell_from_spec(spec) -> CellV:
    if spec is None:
        return CellV()
    return CellV(value=spec.get("v"), style=spec.get("s"))


def expand_cells(specs) -> list:
    out = []
    for s in specs:
        k = (s or {}).get("r", 1) or 1
        for _ in range(k):
            out.append(cell_from_spec(s))
    return out


class Grid:
    def __init__(self):
        self.cols = []  # list of (style, default_cell_style)
        self.rows = []  # list of list[CellV]

    # ---- construction --------------------------------------------------
    @classmethod
    def from_view(cls, tv: TableView) -> "Grid":
        g = cls()
        g.cols = list(tv.cols)
        g.rows = [[c.copy() for c in r] for r in tv.rows]
        return g

    def copy(self) -> "Grid":
        g = Grid()
        g.cols = list(self.cols)
        g.rows = [[c.copy() for c in r] for r in self.rows]
        return g

    @property
    def width(self):
        return len(self.cols)

    @property
    def height(self):
        return len(self.rows)

    # ---- internal helpers ------------------------------------------------
    def _upd_width(self, w):
        while len(self.cols) < w:
            self.cols.append((None, None))

    def _first_row_rule(self, w):
        # "columns are automatically created when the first row is inserted"
        if not self.cols:
            self.cols = [(None, None)] * max(1, w)

    def _append_rows(self, cells, k):
        for _ in range(k):
            self.rows.append([c.copy() for c in cells])
        self._first_row_rule(len(cells))
        self._upd_width(len(cells))

    def _pad_rows_to(self, y):
        """make rows 0..y-1 exist (empty rows of no cells)."""
        if y > len(self.rows):
            self._append_rows([], y - len(self.rows))

    # ---- row-level primitives (on a python list of CellV) ---------------------
    @staticmethod
    def row_set_cell(cells, x, cell, k=1):
        if x >= len(cells):
            cells.extend(CellV() for _ in range(x - len(cells)))
            cells.extend(cell.copy() for _ in range(k))
        else:
            for i in range(k):
                if x + i < len(cells):
                    cells[x + i] = cell.copy()
                else:
                    cells.append(cell.copy())

    @staticmethod
    def row_insert_cell(cells, x, cell, k=1):
        if x > len(cells):
            cells.extend(CellV() for _ in range(x - len(cells)))
        cells[x:x] = [cell.copy() for _ in range(k)]

    @staticmethod
    def row_append_cell(cells, cell, k=1):
        cells.extend(cell.copy() for _ in range(k))

    @staticmethod
    def row_delete_cell(cells, x):
        if x < len(cells):
            del cells[x]

    @staticmethod
    def row_set_cells(cells, start, specs):
        x = start
        for s in specs:
            k = (s or {}).get("r", 1) or 1
            Grid.row_set_cell(cells, x, cell_from_spec(s), k)
            x += k

    @staticmethod
    def row_set_values(cells, start, values, style=None):
        for i, v in enumerate(values):
            Grid.row_set_cell(cells, start + i, CellV(value=v, style=style), 1)

    @staticmethod
    def row_rstrip(cells, aggressive=False):
        while cells and cells[-1].is_empty(aggressive):
            cells.pop()

    # ---- table-level ops -------------------------------------------------
    def _row_for_edit(self, y):
        """the row at y, creating empty rows up to and including y."""
        if y >= len(self.rows):
            self._pad_rows_to(y)
            self._append_rows([], 1)
        return self.rows[y]

    def set_cell(self, x, y, spec):
        k = (spec or {}).get("r", 1) or 1
        row = self._row_for_edit(y)
        self.row_set_cell(row, x, cell_from_spec(spec), k)
        self._upd_width(len(row))

    def insert_cell(self, x, y, spec):
        k = (spec or {}).get("r", 1) or 1
        row = self._row_for_edit(y)
        self.row_insert_cell(row, x, cell_from_spec(spec), k)
        self._upd_width(len(row))

    def append_cell(self, y, spec):
        k = (spec or {}).get("r", 1) or 1
        row = self._row_for_edit(y)
        self.row_append_cell(row, cell_from_spec(spec), k)
        self._upd_width(len(row))

    def delete_cell(self, x, y):
        if y >= len(self.rows):
            return
        self.row_delete_cell(self.rows[y], x)

    def set_row(self, y, cells, k=1):
        if y >= len(self.rows):
            # outside the table: the rows are appended (append_row semantics)
            self._pad_rows_to(y)
            self._append_rows(cells, k)
            return
        for i in range(k):
            if y + i < len(self.rows):
                self.rows[y + i] = [c.copy() for c in cells]
            else:
                self.rows.append([c.copy() for c in cells])
        self._upd_width(len(cells))

    def insert_row(self, y, cells, k=1):
        if y >= len(self.rows):
            self._pad_rows_to(y)
            self._append_rows(cells, k)
            return
        self.rows[y:y] = [[c.copy() for c in cells] for _ in range(k)]
        self._upd_width(len(cells))

    def append_row(self, cells, k=1):
        self._append_rows(cells, k)

    def delete_row(self, y):
        if y < len(self.rows):
            del self.rows[y]

    def extend_rows(self, rowspecs):
        for rs in rowspecs:
            cells = expand_cells(rs.get("cells", []))
            for _ in range(rs.get("r", 1) or 1):
                self.rows.append([c.copy() for c in cells])
        # the width is brought up to the widest row; the first rows of a
        # table declare its columns (at least one), as with append_row
        w = max([len(r) for r in self.rows] + [0])
        if self.rows:
            self._first_row_rule(w)
        self._upd_width(w)

    def set_values(self, x, y, matrix, style=None):
        for i, vals in enumerate(matrix):
            if not vals:
                continue
            row = self._row_for_edit(y + i)
            self.row_set_values(row, x, vals, style)
            self._upd_width(len(row))

    def set_cells(self, x, y, matrix):
        for i, specs in enumerate(matrix):
            if not specs:
                continue
            row = self._row_for_edit(y + i)
            self.row_set_cells(row, x, specs)
            self._upd_width(len(row))

    def set_column_cells(self, x, specs):
        if len(specs) != len(self.rows):
            raise Rejects("col mismatch")
        for y, s in enumerate(specs):
            k = (s or {}).get("r", 1) or 1
            self.row_set_cell(self.rows[y], x, cell_from_spec(s), k)
            self._upd_width(len(self.rows[y]))

    def insert_column(self, x, colspec):
        k = (colspec or {}).get("r", 1) or 1
        col = ((colspec or {}).get("s"), None)
        if x > len(self.cols):
            self._upd_width(x)
        self.cols[x:x] = [col] * k
        for row in self.rows:
            if len(row) > x:
                row[x:x] = [CellV() for _ in range(k)]

    def append_column(self, colspec):
        k = (colspec or {}).get("r", 1) or 1
        col = ((colspec or {}).get("s"), None)
        self.cols.extend([col] * k)

    def delete_column(self, x):
        if x >= len(self.cols):
            return
        del self.cols[x]
        for row in self.rows:
            if len(row) > x:
                del row[x]

    def set_column(self, x, colspec):
        k = (colspec or {}).get("r", 1) or 1
        col = ((colspec or {}).get("s"), None)
        if x > len(self.cols):
            self._upd_width(x)
        for i in range(k):
            if x + i < len(self.cols):
                self.cols[x + i] = col
            else:
                self.cols.append(col)

    def clear(self):
        self.cols = []
        self.rows = []

    # ---- reads -----------------------------------------------------------
    def cell(self, x, y) -> CellV:
        if y < len(self.rows) and x < len(self.rows[y]):
            return self.rows[y][x]
        return CellV()

    def values(self):
        w = self.width
        return [[c.value for c in r] + [None] * (w - len(r)) for r in self.rows]

    def values_area(self, x, y, z, t):
        """what Table.get_values((x, y, z, t)) documents: the area, clipped to
        the table, each line completed to the requested/available width."""
        out = []
        w = min(z + 1, self.width) - x
        for yy in range(y, min(t, self.height - 1) + 1):
            r = self.rows[yy]
            vals = [c.value for c in r[x : z + 1]]
            vals.extend([None] * (w - len(vals)))
            out.append(vals)
        return out

    def row_values(self, y):
        if y < len(self.rows):
            return [c.value for c in self.rows[y]]
        return []

    def row_values_padded(self, y):
        v = self.row_values(y)
        return v + [None] * (self.width - len(v))

    def column_values(self, x):
        return [self.cell(x, y).value for y in range(self.height)]

    def styles(self):
        return [[c.style for c in r] for r in self.rows]

    def state_key(self):
        return (
            tuple(self.cols),
            tuple(tuple(c.key() for c in r) for r in self.rows),
        )
