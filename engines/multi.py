"""C10 is served by two engines: a seeded choice per run (recorded in cfg['leg'])."""
from engines.doc_engine import DocEngine
from engines.table_engine import TableEngine


class C10Engine:
    name = "TD"

    @classmethod
    def gen_cfg(cls, rng, prop, tier):
        leg = rng.choice(["T", "D"], "leg")
        cfg = (TableEngine if leg == "T" else DocEngine).gen_cfg(rng, prop, tier)
        cfg["leg"] = leg
        return cfg

    def __new__(cls, prop, cfg, stats):
        return (TableEngine if cfg.get("leg", "T") == "T" else DocEngine)(prop, cfg, stats)
