"""C17 — whole-table transformations preserve what they must (law checks).

Each 'law' op applies a transformation (or a pair) to the live table and
checks an algebraic law on what an independent reader sees before and after
(DESIGN §6 C17).  The table keeps evolving, so laws are checked on tables
with the run-length encodings, ragged rows, styled empty cells and spans that
the history produced.
"""
from __future__ import annotations

import io
import os
import re

from simkit import xmlref
from simkit.kernel import Violation
from engines import tablesim as ts

LAWS = [("transpose2", 4), ("transpose2_area", 2), ("rstrip", 4), ("optimize_width", 4), ("span", 5), ("csv", 3)]


def gen_law(eng, rng, tv):
    law = rng.weighted(LAWS, "law")
    op = {"op": "law", "law": law, "obs": {"level": "none"}}
    W, H = max(1, tv.width), max(1, tv.height)
    if rng.chance(0.5, "warm?"):
        # cache-filling reads near the edges, issued before the transformation
        op["warm"] = [[rng.randint(0, W, "wx"), rng.randint(max(0, H - 3), H, "wy")] for _ in range(rng.randint(1, 3, "nwarm"))]
    if rng.chance(0.35, "pre?"):
        # composition: other transformations applied right before the law
        op["pre"] = [rng.choice(["rstrip", "rstrip_aggr", "optimize_width", "transpose", "warm_bottom"], "pre") for _ in range(rng.randint(1, 3, "npre"))]
    if law == "transpose2_area":
        n = rng.randint(1, max(1, min(W, H, 4)), "sq")
        x = rng.randint(0, max(0, W - n), "sx")
        y = rng.randint(0, max(0, H - n), "sy")
        op["area"] = {"a": [x, y, x + n - 1, y + n - 1]}
        if rng.chance(eng.cfg["p_strform"], "aform"):
            op["area"]["form"] = "s"
    elif law == "rstrip":
        op["aggressive"] = rng.chance(0.5, "aggr")
    elif law == "span":
        op["area"] = eng._area(rng, tv, small=True)
        # sometimes reach beyond the table
        if rng.chance(0.15, "span_beyond"):
            a = op["area"]["a"]
            a[2] += 2
            a[3] += 1
        op["merge"] = rng.chance(0.25, "merge")
        op["del"] = rng.chance(0.7, "del")
        # del_span takes the anchor cell or an area ("the upper left cell is used"): exactly the span, less, more
        op["del_form"] = rng.choice(["cell", "cell", "exact", "smaller", "larger"], "delform")
    elif law == "csv":
        op["target"] = rng.choice(["none", "path", "stringio"], "csvtarget")
        op["dialect"] = rng.choice(["excel", "excel", "unix"], "dialect")
    return op


def _strip_matrix(m):
    """drop trailing all-empty rows and columns (None or '')"""

    def empty(v):
        return v is None or v == ""

    m = [list(r) for r in m]
    while m and all(empty(v) for v in m[-1]):
        m.pop()
    w = 0
    for r in m:
        for i, v in enumerate(r):
            if not empty(v):
                w = max(w, i + 1)
    return [[(None if empty(v) else v) for v in (r + [None] * w)[:w]] for r in m]


def _keys(tv):
    return [[c.key() for c in r] for r in tv.rows]


def _pad_keys(tv, H, W):
    empty = xmlref.CellV().key()
    out = []
    for y in range(H):
        row = tv.rows[y] if y < tv.height else []
        out.append([(row[x].key() if x < len(row) else empty) for x in range(W)])
    return out


def _table_feats(tv):
    f = []
    if any(len(r) < tv.width for r in tv.rows):
        f.append("ragged")
    if any(len(r) != len(tv.rows[0]) for r in tv.rows):
        f.append("rows_unequal")
    if any(c.covered or c.cspan or c.rspan for r in tv.rows for c in r):
        f.append("has_span")
    if any(n > 1 for n in tv.row_runs):
        f.append("row_runs")
    if any(n > 1 for r in tv.cell_runs for n in r):
        f.append("cell_runs")
    if tv.grouped_rows:
        f.append("has_row_group")
    if tv.grouped_cols:
        f.append("has_col_group")
    if tv.height == 0:
        f.append("no_rows")
    return f


CSV_SAFE_STR = re.compile(r"^[A-Za-z][A-Za-z0-9]*([ \n][A-Za-z0-9]+)*$")


def _csv_domain(tv):
    """CSV is unambiguous for: ints, bools, None, and plain words (also on several
    lines inside one cell, quoted by the writer) that do not parse as another type"""
    for r in tv.rows:
        for i, c in enumerate(r):
            v = c.value
            if v is None or isinstance(v, bool) or isinstance(v, int):
                continue
            if isinstance(v, str) and CSV_SAFE_STR.match(v) and v.lower() not in ("true", "false", "nan", "inf", "infinity") and not re.match(r"^(P|p)", v):
                if "\n" in v and i == len(r) - 1:
                    return False  # (a multi-line field ending a line confuses csv.Sniffer on the unchanged tree: outside the domain)
                continue
            return False
    return True


def run_law(eng, op, tv):
    t = eng.sut.table
    law = op["law"]
    name = "law:" + law
    feats = _table_feats(tv)
    vs = []
    eng.stats.probe("law:" + law)
    for f in feats:
        eng.stats.probe("lawfeat:" + f)

    def raised(e, what):
        return [Violation("C17", what, name, feats, type(e).__name__, f"{type(e).__name__}: {e}")]

    if op.get("pre"):
        try:
            for p in op["pre"]:
                if p == "rstrip":
                    t.rstrip()
                elif p == "rstrip_aggr":
                    t.rstrip(aggressive=True)
                elif p == "optimize_width":
                    t.optimize_width()
                elif p == "transpose":
                    t.transpose()
                elif p == "warm_bottom":
                    h = t.height
                    for yy in range(max(0, h - 4), h + 1):
                        t.get_row(yy)
                        t.get_value((0, yy))
        except Exception:
            eng.stats.probe("law_pre_raised")
            eng.resync()
            return []
        eng.stats.probe("law_with_pre")
        t = eng.sut.table
        tv = eng.sut.view()
        feats = _table_feats(tv) + ["composed"]
    for wx, wy in op.get("warm", []):
        try:
            t.get_row(wy)
            t.get_cell((wx, wy))
            t.get_value((wx, wy))
        except Exception:
            pass

    if law in ("transpose2", "transpose2_area"):
        try:
            before = ts.norm(t.get_values())
        except Exception:
            eng.resync()
            return []
        area = ts.area_of(op["area"]) if law == "transpose2_area" else None
        if law == "transpose2_area":
            x, y, z, tt = op["area"]["a"]
            if z >= tv.width or tt >= tv.height:
                eng.stats.probe("law_skipped_area_outside")
                return []
            feats = feats + ["area"]
        try:
            t.transpose(area)
            t.transpose(area)
        except Exception as e:
            return raised(e, "transpose-raises")
        after = ts.norm(t.get_values())
        if law == "transpose2_area":
            if after != before:
                return [Violation("C17", "transpose-involution", name, feats, None, "area transposed twice: " + (ts.first_diff(after, before) or ""))]
            return []
        a, b = _strip_matrix(after), _strip_matrix(before)
        if a != b:
            return [Violation("C17", "transpose-involution", name, feats, None, "transposed twice (modulo trailing empties): " + (ts.first_diff(a, b) or ""))]
        tight = before == b and "ragged" not in feats
        if tight and after != before:
            return [Violation("C17", "transpose-involution-exact", name, feats, None, "rectangular tight table: " + (ts.first_diff(after, before) or ""))]
        return []

    if law in ("rstrip", "optimize_width"):
        aggressive = op.get("aggressive", False) if law == "rstrip" else True
        if aggressive:
            feats = feats + ["aggressive"]
        try:
            if law == "rstrip":
                t.rstrip(aggressive=op.get("aggressive", False))
            else:
                t.optimize_width()
        except Exception as e:
            return raised(e, law + "-raises")
        post = eng.sut.view()
        # (a) + (b): every row of the result is a prefix of the old row, what
        # was cut is empty; rows cut at the bottom are empty rows
        if post.height > tv.height:
            return [Violation("C17", law + "-grew", name, feats, None, f"height {tv.height} -> {post.height}")]
        for y in range(tv.height):
            old = tv.rows[y]
            new = post.rows[y] if y < post.height else []
            if len(new) > len(old) and not (law == "optimize_width" and all(c.is_empty(True) for c in new[len(old):])):
                return [Violation("C17", law + "-grew", name, feats, None, f"row {y} width {len(old)} -> {len(new)}")]
            for x in range(len(old)):
                if x < len(new):
                    if new[x].key() != old[x].key():
                        return [Violation("C17", law + "-moved", name, feats, None, f"cell ({x},{y}) was {old[x]!r}, is {new[x]!r}")]
                elif not old[x].is_empty(aggressive):
                    return [Violation("C17", law + "-lost", name, feats, None, f"non-empty cell ({x},{y}) {old[x]!r} removed")]
        # (e) the column declarations are trimmed to the widest row left (both methods say so)
        # (a row without cells counts for one column in optimize_width, by design; tables whose
        #  columns sit in wrapper elements are the col-group finding's business)
        widest = max([len(r) for r in post.rows] + [0])
        if law == "optimize_width":
            widest = max(widest, 1)
        if post.height and not tv.grouped_cols and tv.width >= widest and post.width != widest:
            return [Violation("C17", law + "-columns-not-trimmed", name, feats, None, f"{post.width} columns declared, the widest row has {widest} cells")]
        # (c) idempotent
        ser1 = t.serialize()
        try:
            if law == "rstrip":
                t.rstrip(aggressive=op.get("aggressive", False))
            else:
                t.optimize_width()
        except Exception as e:
            return raised(e, law + "-raises")
        if t.serialize() != ser1:
            post2 = eng.sut.view()
            if _keys(post2) != _keys(post) or post2.width != post.width:
                return [Violation("C17", law + "-idempotent", name, feats, None, f"second call changed the table: size {post.width}x{post.height} -> {post2.width}x{post2.height}")]
        # (d) rstrip really strips: no empty trailing row / trailing cell left
        if law == "rstrip":
            if post.height and all(c.is_empty(aggressive) for c in post.rows[-1]):
                return [Violation("C17", "rstrip-left-empty-row", name, feats, None, "last row is empty after rstrip")]
            for y, r in enumerate(post.rows):
                if r and r[-1].is_empty(aggressive):
                    return [Violation("C17", "rstrip-left-empty-cell", name, feats, None, f"row {y} ends with an empty cell after rstrip")]
        return []

    if law == "span":
        x, y, z, tt = op["area"]["a"]
        merge = op.get("merge", False)
        single = (x, y) == (z, tt)
        in_area = lambda cx, cy: x <= cx <= z and y <= cy <= tt

        def spanned(c):
            return c.covered or c.cspan is not None or c.rspan is not None

        overlap = any(
            spanned(tv.rows[cy][cx])
            for cy in range(y, min(tt, tv.height - 1) + 1)
            for cx in range(x, min(z, len(tv.rows[cy]) - 1) + 1)
        )
        if overlap:
            feats = feats + ["overlap"]
        if merge:
            feats = feats + ["merge"]
        if z >= tv.width or tt >= tv.height:
            feats = feats + ["area_beyond"]
        before_xml = t.serialize()
        try:
            ret = t.set_span(ts.area_of(op["area"]), merge=merge)
        except Exception as e:
            return raised(e, "set_span-raises")
        post = eng.sut.view()
        if single or overlap:
            if ret is not False:
                return [Violation("C17", "span-must-refuse", name, feats, None, f"set_span returned {ret!r} for a {'single cell' if single else 'area overlapping an existing span'}")]
            if t.serialize() != before_xml and _keys(post) != _keys(tv):
                return [Violation("C17", "span-refused-but-changed", name, feats, None, "set_span returned False but changed the table")]
            return []
        if ret is not True:
            return [Violation("C17", "span-refused", name, feats, None, f"set_span returned {ret!r} on a free area")]
        H2, W2 = max(post.height, tv.height), max(post.width, tv.width, max([len(r) for r in post.rows] + [0]))
        for cy in range(H2):
            for cx in range(W2):
                old = tv.rows[cy][cx] if cy < tv.height and cx < len(tv.rows[cy]) else xmlref.CellV()
                new = post.rows[cy][cx] if cy < post.height and cx < len(post.rows[cy]) else xmlref.CellV()
                if in_area(cx, cy):
                    if (cx, cy) == (x, y):
                        if new.covered or new.cspan != str(z - x + 1) or new.rspan != str(tt - y + 1):
                            return [Violation("C17", "span-anchor", name, feats, None, f"anchor ({cx},{cy}) is {new!r}, expected span {z - x + 1}x{tt - y + 1}")]
                    elif not new.covered:
                        return [Violation("C17", "span-not-covered", name, feats, None, f"cell ({cx},{cy}) inside the area is not covered: {new!r}")]
                    if not merge and new.value != old.value:
                        return [Violation("C17", "span-changed-value", name, feats, None, f"cell ({cx},{cy}) value {old.value!r} -> {new.value!r} without merge")]
                else:
                    if new.key() != old.key():
                        return [Violation("C17", "span-outside-changed", name, feats, None, f"cell ({cx},{cy}) outside the area changed {old!r} -> {new!r}")]
        # the same through the table's own read API
        try:
            for cy in range(y, tt + 1):
                for cx in range(x, z + 1):
                    if not t.get_cell((cx, cy)).is_spanned():
                        return [Violation("C17", "span-not-seen-by-api", name, feats, None, f"get_cell(({cx},{cy})).is_spanned() is False inside the span just created")]
        except Exception as e:
            return raised(e, "span-read-raises")
        if op.get("del") and not merge:
            try:
                form = op.get("del_form", "cell")
                if form == "cell":
                    darg = ts.coord_of({"x": x, "y": y})
                else:
                    dz, dt_ = {"exact": (z, tt), "smaller": (x, y), "larger": (z + 2, tt + 1)}[form]
                    darg = ts.area_of({"a": [x, y, dz, dt_], "form": op["area"].get("form")})
                    feats = feats + ["del_span_area_" + form]
                ret2 = t.del_span(darg)
            except Exception as e:
                return raised(e, "del_span-raises")
            if ret2 is not True:
                return [Violation("C17", "del_span-refused", name, feats, None, f"del_span returned {ret2!r} on a span just created")]
            post2 = eng.sut.view()
            if _pad_keys(post2, H2, W2) != _pad_keys(tv, H2, W2):
                d = ts.first_diff(_pad_keys(post2, H2, W2), _pad_keys(tv, H2, W2))
                return [Violation("C17", "span-roundtrip", name, feats, None, "set_span then del_span did not restore the table: " + (d or ""))]
        return []

    if law == "csv":
        from odfdo.table import import_from_csv

        if not _csv_domain(tv) or "has_span" in feats or tv.height == 0:
            eng.stats.probe("law_csv_outside_domain")
            return []
        want = _strip_matrix(ts.norm([[c.value for c in r] for r in tv.rows]))
        want = [r for r in want]
        target = op.get("target", "none")
        dialect = op.get("dialect", "excel")
        feats = feats + ["csv_" + target, "dialect_" + dialect]
        if tv.width == 1 or all(len(r) <= 1 for r in tv.rows):
            feats.append("single_column")
        if not want:
            feats.append("no_values")
        try:
            if target == "none":
                text = t.to_csv(None, dialect=dialect)
                src = io.StringIO(text)
            elif target == "path":
                path = os.path.join(eng.scratch(), "t.csv")
                t.to_csv(path, dialect=dialect)
                src = path
            else:
                text = t.to_csv(None, dialect=dialect)
                src = io.BytesIO(text.encode("utf-8"))
            t2 = import_from_csv(src, "Imported", delimiter=",", quotechar='"')
        except Exception as e:
            return raised(e, "csv-raises")
        got = _strip_matrix(ts.norm(t2.get_values()))
        # row count: trailing empty lines are legitimately dropped by _strip_matrix on both sides
        if got != want:
            return [Violation("C17", "csv-roundtrip", name, feats, None, ts.first_diff(got, want) or "differ")]
        return []
    raise ValueError(law)
