"""Engine T: generator + oracles for the table properties
(C01, C02, C07, C08, C10-table leg, C17)."""
from __future__ import annotations

import os

from simkit import xmlref
from simkit.kernel import HarnessError, Violation
from engines import tablesim as ts
from engines import table_probes
from engines import table_laws
from engines.grid import Grid, Rejects

SMALL_SAMPLES = [
    ("lpod_styles.odt", 0), ("lpod_styles.odt", 1),
    ("minimal_hidden.ods", 0), ("minimal_hidden.ods", 1),
    ("simple_table.ods", 0), ("simple_table.ods", 1), ("simple_table.ods", 2),
    ("simple_table_named_range.ods", 0), ("simple_table_named_range.ods", 2),
    ("styled_table.ods", 1), ("styled_table.ods", 2),
    ("table.odt", 0),  # table.odt #1 has a footnote inside a cell: its string value is a text-projection matter, out of scope here
]

# op -> base weight
MUTATION_WEIGHTS = {
    "set_value": 10, "set_cell": 8, "insert_cell": 5, "append_cell": 4, "delete_cell": 5,
    "set_row": 6, "insert_row": 5, "append_row": 4, "delete_row": 5, "extend_rows": 2,
    "set_row_values": 3, "set_row_cells": 3, "set_values": 4, "set_cells": 4,
    "set_column_values": 2, "set_column_cells": 2, "insert_column": 5, "append_column": 2,
    "delete_column": 5, "set_column": 2, "clear": 0.3, "row_edit": 6, "cell_edit": 4,
    # read an area / a column and push the copies straight back: the identity on the grid
    "pushback": 4,
}

# ops without grid semantics: weight per property
RAW_WEIGHTS = {
    "C02": {"rstrip": 3, "optimize_width": 3, "transpose": 2, "set_span": 2, "del_span": 1, "live_row_rep": 4, "live_cell_rep": 4,
            # a row wrapper obtained with clone=False and edited in place; extend_rows fed by an iterable
            # that fails half-way (caller catches) or that holds the same Row object several times
            "live_row_op": 5, "extend_rows_odd": 2, "live_row_rep_ge": 2, "held_rows_rep": 2},
    # C08 judges reads: whole-table operations in the history change what the reads see
    "C08": {"rstrip": 2, "optimize_width": 3, "transpose": 1},
    # C07 quantifies over histories of public Table/Row operations: the
    # repeated-setters on live wrappers (C02's quantifier) are not in it
    # (the repeated-setters on live wrappers are a known C02 finding that leaves the live table stale: kept out of C10)
    "C10": {"rstrip": 2, "optimize_width": 2, "transpose": 1, "set_span": 1, "del_span": 1},
    "C17": {"set_span": 1},
    "C07": {"rstrip": 3, "optimize_width": 3, "transpose": 2, "set_span": 2, "del_span": 1},
}

READ_KINDS = ["get_row", "get_cell", "get_value", "traverse", "get_values", "get_column", "columns",
              "get_rows", "get_cells", "get_column_cells", "get_row_values"]


class TableEngine:
    name = "T"

    # ------------------------------------------------------------------ cfg
    @classmethod
    def gen_cfg(cls, rng, prop, tier):
        cfg = {}
        deep = tier == "thorough"
        cfg["max_steps"] = rng.choice([4, 6, 8, 12, 16, 24, 32, 40] + ([48, 60] if deep else []), "max_steps")
        cfg["max_dim"] = rng.choice([2, 3, 4, 6, 8, 10] + ([12] if deep else []), "max_dim")
        cfg["max_rep"] = rng.choice([2, 3, 3, 5, 8] + ([12] if deep else []), "max_rep")
        cfg["p_rep"] = rng.choice([0.0, 0.15, 0.3, 0.5], "p_rep")
        cfg["p_big"] = rng.choice([0.0, 0.0, 0.02] + ([0.05] if deep else []), "p_big")
        cfg["p_warm"] = rng.choice([0.0, 0.1, 0.3, 0.6] if prop != "C02" else [0.2, 0.4, 0.6, 0.8], "p_warm")
        cfg["p_restart"] = rng.choice([0.0, 0.03, 0.1], "p_restart")
        cfg["p_strform"] = rng.choice([0.0, 0.2, 0.5], "p_strform")
        cfg["p_beyond"] = rng.choice([0.05, 0.15, 0.3], "p_beyond")
        cfg["p_style"] = rng.choice([0.0, 0.1, 0.3], "p_style")
        # C01 compares the full comparison set after every step so that a
        # divergence is attributed to the op that caused it
        cfg["obs_mode"] = "full" if prop == "C01" else rng.choice(["full", "full", "light", "sparse"], "obs_mode")
        cfg["attached"] = rng.chance(0.3, "attached")
        cfg["family"] = rng.weighted([("empty", 2), ("prefilled", 2), ("rle", 6), ("sample", 2)], "family")
        names = sorted(MUTATION_WEIGHTS) + sorted(RAW_WEIGHTS.get(prop, {}))
        if rng.chance(0.5, "subset"):
            k = rng.randint(3, len(names), "subset_k")
            cfg["ops"] = sorted(rng.sample(names, k, "subset_ops"))
        else:
            cfg["ops"] = names
        return cfg

    # ----------------------------------------------------------------- init
    def __init__(self, prop, cfg, stats):
        self.prop = prop
        self.cfg = cfg
        self.stats = stats
        self.sut = ts.TableSUT()
        self.grid = None
        self.counter = 0
        self._outcome = ""
        self.disabled_rules = set()
        self.n_mut = 0
        self.n_mut_in_run = 0
        self.n_restart = 0
        self.n_warm_mut = 0
        self._last_was_read = False
        self._pre_height = 0
        self.n_probe = 0
        self._restore_xml = None
        self._pre_xml = None
        self.twin = None  # C10: the other TableSUT
        self.n_law = 0
        self.n_twin_ops = 0
        self._scratch = None

    def scratch(self):
        import tempfile

        if self._scratch is None:
            base = os.environ.get("VERIF_SCRATCH") or ("/dev/shm" if os.path.isdir("/dev/shm") else None)
            self._scratch = tempfile.mkdtemp(prefix="odfdo-verif-T-", dir=base)
        return self._scratch

    def close(self):
        if self._scratch:
            import shutil

            shutil.rmtree(self._scratch, ignore_errors=True)

    def outcome(self):
        return self._outcome

    def state_digest(self):
        if self.sut.table is None:
            return "-"
        return ts.state_digest(self.sut.view())

    def nontrivial(self):
        """>= 3 mutations, >= 1 mutation whose target was inside a repeated
        run, and >= 1 restart or mutation issued right after a cache-warming read"""
        if self.prop == "C08":
            return self.n_mut >= 2 and self.n_probe >= 2
        if self.prop == "C17":
            return self.n_law >= 2 and self.n_mut >= 1
        if self.prop == "C10":
            return self.twin is not None and self.n_twin_ops >= 3
        return self.n_mut >= 3 and self.n_mut_in_run >= 1 and (self.n_restart + self.n_warm_mut) >= 1

    # ------------------------------------------------------------ generators
    def _val(self, rng):
        self.counter += 1
        kind = rng.weighted([("int", 6), ("str", 3), ("none", 1), ("bool", 0.3), ("multiline", 0.4 if self.prop == "C17" else 0),
                             ("bigint", 0.4 if self.prop == "C17" else 0), ("float", 0.7)], "vkind")
        if kind == "int":
            return self.counter
        if kind == "float":
            return self.counter + 0.1  # (not exactly representable in binary; its shortest repr is what a cell must show)
        if kind == "bigint":
            return 2**53 + 1 + 2 * self.counter  # (an identifier / barcode: not representable as a double)
        if kind == "str":
            return f"s{self.counter}"
        if kind == "multiline":
            return f"s{self.counter}\nline{self.counter}"
        if kind == "bool":
            return bool(self.counter % 2)
        return None

    def _rep(self, rng):
        if rng.chance(self.cfg["p_rep"], "rep?"):
            if rng.chance(self.cfg["p_big"], "big?"):
                return rng.randint(20, 60, "bigrep")
            return rng.randint(2, self.cfg["max_rep"], "rep")
        return 1

    def _style(self, rng, pool=("ce1", "ce2")):
        if rng.chance(self.cfg["p_style"], "style?"):
            return rng.choice(list(pool), "style")
        return None

    def _cell(self, rng, allow_none=True):
        if allow_none and rng.chance(0.05, "cellnone"):
            return None
        spec = {"v": self._val(rng)}
        s = self._style(rng)
        if s:
            spec["s"] = s
        r = self._rep(rng)
        if r > 1:
            spec["r"] = r
        return spec

    def _cells(self, rng, n):
        """a list of cell specs whose expansion has about n cells"""
        out = []
        total = 0
        while total < n:
            c = self._cell(rng, allow_none=False)
            k = c.get("r", 1)
            if total + k > n + 1:
                c.pop("r", None)
                k = 1
            out.append(c)
            total += k
        return out

    def _row(self, rng, W):
        if rng.chance(0.06, "rownone"):
            return None
        n = rng.choice([0, 1, max(1, W - 1), W, W, W, W + 1, W + 2], "roww")
        n = min(n, self.cfg["max_dim"] + 3)
        spec = {"cells": self._cells(rng, n)}
        r = self._rep(rng)
        if r > 1:
            spec["r"] = r
        if rng.chance(0.3, "rowhow"):
            spec["how"] = "extend"
        s = self._style(rng, ("ro1", "ro2"))
        if s:
            spec["s"] = s
        return spec

    def _col(self, rng):
        if rng.chance(0.2, "colnone"):
            return None
        spec = {}
        s = self._style(rng, ("co1", "co2"))
        if s:
            spec["s"] = s
        r = self._rep(rng)
        if r > 1:
            spec["r"] = r
        return spec

    def _pick_y(self, rng, tv, beyond=True):
        H = tv.height
        opts = []
        if H > 0:
            opts.append(("in", 5))
            if any(n > 1 for n in tv.row_runs):
                opts.append(("run", 5))
            opts.append(("last", 1))
        if beyond:
            opts.append(("edge", 2 if H else 5))
            opts.append(("beyond", 10 * self.cfg["p_beyond"]))
        if not opts:
            return 0
        k = rng.weighted(opts, "ykind")
        if k == "in":
            return rng.randint(0, H - 1, "y")
        if k == "last":
            return H - 1
        if k == "edge":
            return H
        if k == "beyond":
            return H + rng.randint(1, 3, "ygap")
        # aim at a repeated run
        runs = [(i, n) for i, n in enumerate(tv.row_runs) if n > 1]
        i, n = rng.choice(runs, "yrun")
        start = sum(tv.row_runs[:i])
        pos = rng.choice(["first", "middle", "last"], "yrunpos")
        if pos == "first":
            return start
        if pos == "last":
            return start + n - 1
        return start + (rng.randint(1, n - 2, "ymid") if n > 2 else 0)

    def _pick_x_in_row(self, rng, tv, y, beyond=True):
        rw = len(tv.rows[y]) if y < tv.height else 0
        opts = []
        if rw > 0:
            opts.append(("in", 5))
            i = tv.xml_row_index(y)
            if i is not None and any(n > 1 for n in tv.cell_runs[i]):
                opts.append(("run", 5))
            opts.append(("last", 1))
        if beyond:
            opts.append(("edge", 2 if rw else 5))
            opts.append(("beyond", 10 * self.cfg["p_beyond"]))
        if not opts:
            return 0
        k = rng.weighted(opts, "xkind")
        if k == "in":
            return rng.randint(0, rw - 1, "x")
        if k == "last":
            return rw - 1
        if k == "edge":
            return rw
        if k == "beyond":
            return rw + rng.randint(1, 3, "xgap")
        i = tv.xml_row_index(y)
        runs = [(j, n) for j, n in enumerate(tv.cell_runs[i]) if n > 1]
        j, n = rng.choice(runs, "xrun")
        start = sum(tv.cell_runs[i][:j])
        pos = rng.choice(["first", "middle", "last"], "xrunpos")
        if pos == "first":
            return start
        if pos == "last":
            return start + n - 1
        return start + (rng.randint(1, n - 2, "xmid") if n > 2 else 0)

    def _pick_col(self, rng, tv, beyond=True):
        W = tv.width
        opts = []
        if W > 0:
            opts.append(("in", 6))
            opts.append(("last", 1))
        if beyond:
            opts.append(("edge", 2 if W else 5))
            opts.append(("beyond", 10 * self.cfg["p_beyond"]))
        if not opts:
            return 0
        k = rng.weighted(opts, "ckind")
        if k == "in":
            return rng.randint(0, W - 1, "cx")
        if k == "last":
            return W - 1
        if k == "edge":
            return W
        return W + rng.randint(1, 3, "cgap")

    def _area(self, rng, tv, small=False):
        W, H = max(1, tv.width), max(1, tv.height)
        x = rng.randint(0, W - 1, "ax")
        y = rng.randint(0, H - 1, "ay")
        if small:
            z = x + rng.choice([0, 1, 1, 2], "adx")
            t = y + rng.choice([0, 1, 1, 2], "ady")
        else:
            z = rng.randint(x, W, "az")
            t = rng.randint(y, H, "at")
        a = {"a": [x, y, z, t]}
        if rng.chance(self.cfg["p_strform"], "aform"):
            a["form"] = "s"
        return a

    def _form(self, rng):
        return "s" if rng.chance(self.cfg["p_strform"], "form") else "t"

    def _coord(self, rng, tv, beyond=True):
        y = self._pick_y(rng, tv, beyond)
        x = self._pick_x_in_row(rng, tv, y, beyond)
        c = {"x": x, "y": y}
        if self._form(rng) == "s":
            c["form"] = "s"
        return c

    def _obs_plan(self, rng, tv, last=False):
        mode = self.cfg["obs_mode"]
        if mode == "sparse" and not last and not rng.chance(0.3, "obs?"):
            return {"level": "none"}
        if mode == "light":
            return {"level": "light"}
        if (tv.width + 2) * (tv.height + 2) > 1500:
            # work bound: a table grown past ~1500 logical cells (repeats of 20..60 stacked by the history) is
            # observed through the light set (size, window, single values), the full set costs seconds per step
            return {"level": "light"}
        plan = {"level": "full"}
        W, H = tv.width + 2, tv.height + 2
        x = rng.randint(0, max(0, W - 1), "ax")
        y = rng.randint(0, max(0, H - 1), "ay")
        z = rng.randint(x, max(x, W), "az")
        t = rng.randint(y, max(y, H), "at")
        plan["area"] = {"a": [x, y, z, t]}
        if rng.chance(0.4, "aform"):
            plan["area"]["form"] = "s"
        plan["col"] = rng.randint(0, max(0, W - 1), "ocol")
        plan["row"] = rng.randint(0, max(0, H - 1), "orow")
        if rng.chance(0.3, "oneg"):
            plan["neg"] = True
        return plan

    def gen_init(self, rng):
        cfg = self.cfg
        fam = cfg["family"]
        init = {"op": "init", "family": fam, "attached": cfg["attached"]}
        D = cfg["max_dim"]
        if fam == "prefilled":
            init["w"] = rng.randint(1, D, "w")
            init["h"] = rng.randint(1, D, "h")
        elif fam == "rle":
            nruns = rng.randint(1, D, "nrowruns")
            rows = []
            maxw = 0
            for _ in range(nruns):
                w = rng.randint(0, D, "rw")
                r = {"cells": self._cells(rng, w)}
                k = self._rep(rng)
                if k > 1:
                    r["r"] = k
                s = self._style(rng, ("ro1", "ro2"))
                if s:
                    r["s"] = s
                # sprinkle styled empty cells / empty cells
                for c in r["cells"]:
                    if rng.chance(0.15, "emptycell"):
                        c["v"] = None
                rows.append(r)
                maxw = max(maxw, sum(c.get("r", 1) for c in r["cells"]))
            total = max(1, maxw + rng.choice([0, 0, 0, 1, 2], "extracols"))
            cols = []
            left = total
            while left > 0:
                k = min(left, self._rep(rng))
                c = {}
                if k > 1:
                    c["r"] = k
                s = self._style(rng, ("co1", "co2"))
                if s:
                    c["s"] = s
                cols.append(c)
                left -= k
            spec = {"cols": cols, "rows": rows, "string_attr": rng.chance(0.5, "strattr")}
            if rng.chance(0.1, "hdr") and len(rows) > 1:
                spec["header_rows"] = 1
            # shapes other producers write: column declarations inside wrappers, a span with covered cells
            if rng.chance(0.15, "wrapcols"):
                spec["wrap_cols"] = rng.choice(["columns", "header"], "wrapkind")
            if rng.chance(0.12, "prechildren"):
                spec["pre_children"] = True
            if self.prop in ("C01", "C02", "C07") and rng.chance(0.08, "nested") and rows and rows[0]["cells"] and rows[0]["cells"][0].get("r", 1) == 1 and not rows[0]["cells"][0].get("cs"):
                rows[0]["cells"][0] = {"v": None, "nested": True}
            if rng.chance(0.3 if self.prop == "C17" else 0.12, "initspan") and len(rows) >= 2:
                r0, r1 = rows[0], rows[1]
                if r0["cells"] and r1["cells"] and (r0.get("r", 1) == 1) and (r1.get("r", 1) == 1) and r0["cells"][0].get("r", 1) == 1 and r1["cells"][0].get("r", 1) == 1:
                    r0["cells"][0]["cs"] = 1
                    r0["cells"][0]["rs"] = 2
                    r1["cells"][0]["cov"] = True
                    if rng.chance(0.4, "rowsonly"):
                        del r0["cells"][0]["cs"]  # number-rows-spanned alone
            init["spec"] = spec
        elif fam == "sample":
            f, i = rng.choice(SMALL_SAMPLES, "sample")
            init["file"] = f
            init["index"] = i
        init["obs"] = {"level": "full"}
        return init

    def gen_op(self, rng):
        tv = self.sut.view()
        cfg = self.cfg
        if self.prop == "C10" and self.twin is not None:
            # aim at whichever twin the op will go to: decided first
            pass
        if rng.chance(cfg["p_restart"], "restart?"):
            how = "doc" if (self.sut.doc is not None and rng.chance(0.5, "rhow")) else "xml"
            return {"op": "restart", "how": how, "obs": self._obs_plan(rng, tv)}
        if not self._last_was_read and rng.chance(cfg["p_warm"], "warm?"):
            kind = rng.choice(READ_KINDS, "rkind")
            op = {"op": "read", "kind": kind, "obs": {"level": "none"} if self.prop != "C02" else self._obs_plan(rng, tv)}
            y = self._pick_y(rng, tv, beyond=True)
            op["y"] = y
            op["x"] = self._pick_x_in_row(rng, tv, y, beyond=True) if kind in ("get_cell", "get_value") else self._pick_col(rng, tv)
            if kind in ("get_row", "get_cell") and rng.chance(0.5, "rclone"):
                op["clone"] = False
            return op
        if self.prop == "C08" and getattr(self, "_after_whole_table_op", False):
            # right after rstrip / optimize_width / transpose: a read at or just past the new last row
            self._after_whole_table_op = False
            if rng.chance(0.8, "probe_after_wt"):
                op = table_probes.gen_probe(self, rng, tv)
                g = rng.choice(["get_row", "get_cell", "row_reports", "get_value"], "pawt")
                op["getter"] = g
                for k in ("c", "y", "x", "area", "start", "end", "filter", "neg", "live", "keep_repeated"):
                    op.pop(k, None)
                yy = tv.height + rng.choice([0, 0, 1, -1], "pawt_y")
                yy = max(0, yy)
                if g in ("get_cell", "get_value"):
                    op["c"] = {"x": 0, "y": yy}
                else:
                    op["y"] = yy
                if rng.chance(0.3, "pawt_neg") and g != "row_reports":
                    op["neg"] = True
                    if g in ("get_cell", "get_value"):
                        op["c"]["y"] = max(0, tv.height - 1)
                    else:
                        op["y"] = max(0, tv.height - 1)
                return op
        if self.prop == "C08" and rng.chance(0.45, "probe?"):
            return table_probes.gen_probe(self, rng, tv)
        if self.prop == "C17" and rng.chance(0.45, "law?"):
            return table_laws.gen_law(self, rng, tv)
        if self.prop == "C10":
            if self.twin is None and rng.chance(0.4, "clone?"):
                return {"op": "clone", "obs": {"level": "full"}}
            if rng.chance(0.12, "cloneitem?"):
                what = rng.choice(["row", "cell"], "cloneitem")
                op = {"op": "clone_" + what, "c": self._coord(rng, tv, beyond=False) if tv.height else {"x": 0, "y": 0}, "obs": {"level": "none"}}
                self.counter += 1
                op["v"] = f"c{self.counter}"
                op["mut"] = rng.choice(["set_value", "append", "delete", "insert", "style", "repeated", "attach_rep", "attach_rep"], "cmut")
                if what == "row":
                    op["via"] = rng.choice(["get_row", "get_row", "rows", "get_rows", "traverse"], "cvia")
                if self.twin is not None and rng.chance(0.5, "on"):
                    op["on"] = "twin"
                return op
        W, H = tv.width, tv.height
        D = cfg["max_dim"]
        weights = []
        for name in cfg["ops"]:
            w = MUTATION_WEIGHTS.get(name)
            if w is None:
                w = RAW_WEIGHTS.get(self.prop, {}).get(name, 0)
            if H > D + 4 and name in ("insert_row", "append_row", "extend_rows", "set_row"):
                w *= 0.2
            if H > D + 4 and name == "delete_row":
                w *= 4
            if W > D + 4 and name in ("insert_column", "append_column"):
                w *= 0.2
            if W > D + 4 and name == "delete_column":
                w *= 4
            weights.append((name, w))
        name = rng.weighted(weights, "op")
        op = {"op": name}
        if name == "set_value":
            op["c"] = self._coord(rng, tv)
            op["v"] = self._val(rng)
            s = self._style(rng)
            if s:
                op["s"] = s
        elif name in ("set_cell", "insert_cell"):
            op["c"] = self._coord(rng, tv)
            op["cell"] = self._cell(rng)
            if rng.chance(0.3, "noclone"):
                op["clone"] = False
        elif name == "append_cell":
            op["y"] = self._pick_y(rng, tv)
            op["cell"] = self._cell(rng)
        elif name == "delete_cell":
            op["c"] = self._coord(rng, tv)
        elif name in ("set_row", "insert_row"):
            op["y"] = self._pick_y(rng, tv)
            op["row"] = self._row(rng, W)
            if rng.chance(0.3, "noclone"):
                op["clone"] = False
        elif name == "append_row":
            op["row"] = self._row(rng, W)
        elif name == "delete_row":
            op["y"] = self._pick_y(rng, tv)
        elif name == "extend_rows":
            rows = []
            for _ in range(rng.randint(0, 3, "nrows")):
                r = self._row(rng, W)
                if r is not None:
                    rows.append(r)
            op["rows"] = rows
            if rng.chance(0.3, "ergen"):
                op["how"] = "generator"
        elif name == "set_row_values":
            op["y"] = self._pick_y(rng, tv)
            n = rng.choice([0, 1, max(1, W - 1), W, W + 1], "nvals")
            op["values"] = [self._val(rng) for _ in range(n)]
        elif name == "set_row_cells":
            op["y"] = self._pick_y(rng, tv)
            op["cells"] = self._cells(rng, rng.choice([0, 1, W, W + 1], "ncells"))
        elif name == "set_values":
            if rng.chance(0.8, "coord?"):
                op["c"] = self._coord(rng, tv)
            nr = rng.randint(1, 3, "nr")
            op["values"] = [[self._val(rng) for _ in range(rng.randint(0, 3, "nc"))] for _ in range(nr)]
        elif name == "set_cells":
            if rng.chance(0.8, "coord?"):
                op["c"] = self._coord(rng, tv)
            nr = rng.randint(1, 3, "nr")
            op["cells"] = [self._cells(rng, rng.randint(0, 3, "nc")) for _ in range(nr)]
        elif name in ("set_column_values", "set_column_cells"):
            op["x"] = self._pick_col(rng, tv)
            n = H if rng.chance(0.9, "lenok") else max(0, H + rng.choice([-1, 1], "lenoff"))
            if name == "set_column_values":
                op["values"] = [self._val(rng) for _ in range(n)]
            else:
                cells = []
                for _ in range(n):
                    c = self._cell(rng, allow_none=False)
                    if c.get("r", 1) > 1 and not rng.chance(0.2, "keeprep"):
                        c.pop("r")
                    cells.append(c)
                op["cells"] = cells
        elif name in ("insert_column", "set_column"):
            op["x"] = self._pick_col(rng, tv)
            op["col"] = self._col(rng)
        elif name == "append_column":
            op["col"] = self._col(rng)
        elif name == "delete_column":
            op["x"] = self._pick_col(rng, tv)
        elif name == "clear":
            pass
        elif name == "row_edit":
            y = self._pick_y(rng, tv)
            op["y"] = y
            rw = len(tv.rows[y]) if y < H else 0
            edits = []
            if rng.chance(0.75, "rep_edit"):
                edits.append({"e": "rep", "k": self._rep(rng)})
            for _ in range(rng.randint(0, 3, "nedits")):
                ek = rng.choice(["set_cell", "set_value", "insert_cell", "append_cell", "delete_cell",
                                 "set_values", "set_cells", "extend_cells", "rstrip", "read", "clear"], "ekind")
                e = {"e": ek}
                if ek in ("set_cell", "insert_cell"):
                    e["x"] = rng.randint(0, rw + 2, "ex")
                    e["cell"] = self._cell(rng)
                elif ek == "set_value":
                    e["x"] = rng.randint(0, rw + 2, "ex")
                    e["v"] = self._val(rng)
                elif ek == "append_cell":
                    e["cell"] = self._cell(rng)
                elif ek == "delete_cell":
                    e["x"] = rng.randint(0, rw + 1, "ex")
                elif ek == "set_values":
                    e["start"] = rng.randint(0, rw + 1, "estart")
                    e["values"] = [self._val(rng) for _ in range(rng.randint(0, 4, "nv"))]
                elif ek in ("set_cells", "extend_cells"):
                    if ek == "set_cells":
                        e["start"] = rng.randint(0, rw + 1, "estart")
                    e["cells"] = self._cells(rng, rng.randint(0, 3, "nc"))
                elif ek == "rstrip":
                    if rng.chance(0.5, "aggr"):
                        e["aggressive"] = True
                elif ek == "read":
                    e["x"] = rng.randint(0, rw + 1, "ex")
                edits.append(e)
                rw += 1
            op["edits"] = edits
            op["push"] = rng.choice(["set_row", "set_row", "insert_row", "append_row"], "push")
            if op["push"] != "append_row":
                op["at"] = y if rng.chance(0.6, "same_y") else self._pick_y(rng, tv)
            if rng.chance(0.3, "noclone"):
                op["clone"] = False
            # the row may also come from a whole-table read ("Copies are returned, use set_row() to push
            # them back"): edited and pushed back where it was read (its repeat count is left alone: the
            # rows these reads hand out for unrepeated rows are live wrappers, see C08-traverse-live-rows)
            if y < H and rng.chance(0.3, "via?"):
                op["via"] = rng.choice(["get_rows", "traverse", "rows"], "via")
                op["edits"] = [e for e in op["edits"] if e["e"] != "rep"]
                op["push"] = "set_row"
                op["at"] = y
                op.pop("clone", None)
        elif name == "cell_edit":
            op["c"] = self._coord(rng, tv)
            edits = []
            if rng.chance(0.75, "rep_edit"):
                edits.append({"e": "rep", "k": self._rep(rng)})
            if rng.chance(0.6, "cv"):
                edits.append({"e": "set_value", "v": self._val(rng)})
                if rng.chance(0.4, "cvattr"):
                    edits[-1]["via"] = "attr"
            if rng.chance(0.3, "cs"):
                edits.append({"e": "style", "s": rng.choice(["ce1", "ce2"], "cstyle")})
            op["edits"] = edits
            op["to"] = dict(op["c"]) if rng.chance(0.6, "same_c") else self._coord(rng, tv)
            if rng.chance(0.3, "noclone"):
                op["clone"] = False
        elif name == "pushback":
            op["kind"] = rng.choice(["cells", "cells", "column"], "pbkind") if W > 0 else "cells"
            if op["kind"] == "cells":
                op["area"] = self._area(rng, tv)
            else:
                op["x"] = rng.randint(0, W - 1, "pbx")
        elif name == "rstrip":
            if rng.chance(0.5, "aggr"):
                op["aggressive"] = True
        elif name == "optimize_width":
            pass
        elif name == "transpose":
            if rng.chance(0.4, "tarea"):
                op["area"] = self._area(rng, tv)
        elif name == "set_span":
            op["area"] = self._area(rng, tv, small=True)
            if rng.chance(0.3, "merge"):
                op["merge"] = True
        elif name == "del_span":
            op["c"] = self._coord(rng, tv, beyond=False) if tv.height else {"x": 0, "y": 0}
        elif name == "live_row_op":
            # only rows stored on their own: on a row of a repeated run several Row methods drop or keep the
            # repeat count of the live element (clear, full-width set_values): that is the known
            # C02-live-row-repeated-setter finding by another door
            single = [yy for yy in range(H) if tv.row_run_info(yy)[0] == 1]
            if not single:
                return {"op": "read", "kind": "get_values", "y": 0, "x": 0, "obs": self._obs_plan(rng, tv)}
            y = rng.choice(single, "ly")
            op["y"] = y
            rw = len(tv.rows[y]) if y < H else 0
            edits = []
            for _ in range(rng.randint(1, 3, "nedits")):
                ek = rng.choice(["set_cell", "set_value", "insert_cell", "append_cell", "delete_cell",
                                 "set_values", "set_cells", "extend_cells", "rstrip", "rstrip", "read", "clear", "force_width"], "ekind")
                e = {"e": ek}
                if ek == "force_width":
                    e["w"] = rng.randint(0, rw + 1, "fw")
                if ek in ("set_cell", "insert_cell"):
                    e["x"] = rng.randint(0, rw + 1, "ex")
                    e["cell"] = self._cell(rng)
                elif ek == "set_value":
                    e["x"] = rng.randint(0, rw + 1, "ex")
                    e["v"] = self._val(rng)
                elif ek == "append_cell":
                    e["cell"] = self._cell(rng)
                elif ek == "delete_cell":
                    e["x"] = rng.randint(0, rw + 1, "ex")
                elif ek == "set_values":
                    e["start"] = rng.randint(0, rw + 1, "estart")
                    e["values"] = [self._val(rng) for _ in range(rng.randint(0, 4, "nv"))]
                elif ek in ("set_cells", "extend_cells"):
                    if ek == "set_cells":
                        e["start"] = rng.randint(0, rw + 1, "estart")
                    e["cells"] = self._cells(rng, rng.randint(0, 3, "nc"))
                elif ek == "rstrip":
                    if rng.chance(0.5, "aggr"):
                        e["aggressive"] = True
                elif ek == "read":
                    e["x"] = rng.randint(0, rw + 1, "ex")
                edits.append(e)
            op["edits"] = edits
        elif name == "extend_rows_odd":
            op["rows"] = [r for r in (self._row(rng, W) for _ in range(rng.randint(2, 4, "nrows"))) if r is not None] or [{"cells": []}]
            op["how"] = rng.choice(["fails", "same_object"], "oddhow")
            if op["how"] == "fails":
                op["k"] = rng.randint(0, len(op["rows"]), "failat")
        elif name == "held_rows_rep":
            # row elements fetched, a row appended to the table, then the repeat count of one of the rows
            # fetched before is changed (they share the table's row map)
            if W == 0 or H == 0:
                # (an append to a table without columns rebuilds the maps: handles fetched before are then plain
                # strangers to the table - the live-setter finding by another door)
                return {"op": "read", "kind": "get_values", "y": 0, "x": 0, "obs": self._obs_plan(rng, tv)}
            op["i"] = rng.randint(0, 30, "hri")
            op["k"] = rng.choice([None, 2, 3, self.cfg["max_rep"]], "hrk")
            op["row"] = self._row(rng, W) or {"cells": []}
            op["via"] = rng.choice(["get_elements", "get_elements", "get_rows"], "hrvia")
        elif name == "live_row_rep_ge":
            op["i"] = rng.randint(0, 30, "gei")
            op["k"] = rng.choice([None, None, 1, 2, 3, self.cfg["max_rep"]], "k")
        elif name == "live_row_rep":
            op["y"] = self._pick_y(rng, tv, beyond=False) if tv.height else 0
            op["k"] = rng.choice([1, 1, 2, 3, self.cfg["max_rep"]], "k")
        elif name == "live_cell_rep":
            op["c"] = self._coord(rng, tv, beyond=False) if tv.height else {"x": 0, "y": 0}
            op["k"] = rng.choice([1, 1, 2, 3, self.cfg["max_rep"]], "k")
        # the same argument object used a second time (clone=True promises a copy)
        if op.get("clone", True) and rng.chance(0.12, "again?"):
            if name in ("set_cell", "insert_cell") and op.get("cell") is not None:
                op["again"] = {"c": self._coord(rng, tv)}
            elif name in ("append_cell",) and op.get("cell") is not None:
                op["again"] = {"y": self._pick_y(rng, tv)}
            elif name in ("set_row", "insert_row", "set_row_cells") and op.get("row", True) is not None:
                op["again"] = {"y": self._pick_y(rng, tv)}
            elif name == "append_row" and op.get("row") is not None:
                op["again"] = {}
            elif name == "set_cells" and len(op["cells"]) > 1 and op["cells"][0]:
                op["share"] = True
            elif name in ("insert_column", "set_column") and op.get("col") is not None:
                op["again"] = {"x": self._pick_col(rng, tv)}
            elif name == "append_column" and op.get("col") is not None:
                op["again"] = {}
        if name in ("insert_column", "set_column", "append_column") and op.get("col") is not None and rng.chance(0.2, "touch_arg"):
            op["touch_arg"] = True
        if name in ("set_cell", "insert_cell", "append_cell", "set_row", "insert_row", "append_row") and op.get("clone", True) and not op.get("again") \
                and (op.get("cell") is not None or op.get("row") is not None) and rng.chance(0.15, "touch_arg2"):
            op["touch_arg"] = True  # the caller goes on using ITS object after the call: the table holds a copy
        # coordinate forms for y / x arguments
        if "y" in op and name not in ("row_edit",) and self._form(rng) == "s":
            op["yform"] = "s"
        if "x" in op and self._form(rng) == "s":
            op["xform"] = "s"
        op["obs"] = self._obs_plan(rng, tv)
        # the row the op is aimed at is always read back through the cached path
        # (get_row / get_row_values), wherever it is: a divergence is then attributed to
        # the op that caused it even when the row lies outside the observation window
        ty = op.get("y")
        if ty is None and isinstance(op.get("c"), dict):
            ty = op["c"].get("y")
        if isinstance(op.get("to"), dict):
            ty = op["to"].get("y", ty)
        if ty is not None and op["obs"].get("level") != "none":
            op["obs"]["target_row"] = ty
        if self.prop == "C10" and self.twin is not None and rng.chance(0.5, "on"):
            op["on"] = "twin"
        if self.prop == "C10" and self.twin is not None and name in ("set_column", "insert_column", "append_column", "set_row", "insert_row", "append_row", "set_cell", "insert_cell", "append_cell", "set_row_cells", "set_cells") and op.get("clone", True) and rng.chance(0.45, "arg_to_other"):
            op["arg_to_other"] = True
        if name in ("live_row_rep", "live_cell_rep"):
            op["obs"]["level"] = "full"  # attribute a divergence to this very step
        return op

    # ------------------------------------------------------------------ step
    def _twin_obs(self, sut):
        t = sut.table
        return {
            "xml": t.serialize(),
            "obs": ts.observe_table(t, {"level": "full"}),
            "abs_rows": len(t.get_elements("//table:table-row")),
        }

    def step(self, op):
        if self.prop != "C10" or op["op"] == "init":
            return self._step1(op)
        name = op["op"]
        if name == "clone":
            if self.twin is not None:
                return []
            try:
                before = self._twin_obs(self.sut)
            except Exception:
                self.resync()
                return []
            tw = ts.TableSUT()
            tw.table = self.sut.table.clone
            self.twin = tw
            self.stats.probe("op:clone")
            self._outcome = "clone"
            after = self._twin_obs(self.sut)
            if after != before:
                return [Violation("C10", "clone-modified-original", "clone", [], None, ts.first_diff(before, after) or "")]
            born = self._twin_obs(tw)
            born["abs_rows"] = before["abs_rows"]  # the clone lives under its own root
            d = ts.first_diff({"xml": before["xml"], "obs": before["obs"]}, {"xml": born["xml"], "obs": born["obs"]})
            if d:
                return [Violation("C10", "clone-differs-at-birth", "clone", [], None, d)]
            return []
        on_twin = op.get("on") == "twin" and self.twin is not None
        active, other = (self.twin, self.sut) if on_twin else (self.sut, self.twin)
        snap = None
        if other is not None:
            try:
                snap = self._twin_obs(other)
            except Exception:
                snap = None
        # run the op on the active twin through the ordinary machinery
        saved = self.sut
        self.sut = active
        try:
            vs = self._step1(op)
        finally:
            active = self.sut  # (restart may have replaced the table object, same TableSUT)
            self.sut = saved
        if other is not None:
            self.n_twin_ops += 1
        if vs:
            return vs
        if snap is not None:
            try:
                now = self._twin_obs(other)
            except Exception as e:
                return [Violation("C10", "twin-unreadable", op["op"], ["on_twin" if on_twin else "on_orig"], type(e).__name__, str(e))]
            d = ts.first_diff(snap, now)
            if d:
                return [Violation("C10", "twin-changed", op["op"] if op["op"] != "read" else "read:" + op["kind"], ["on_twin" if on_twin else "on_orig"], None, "the untouched twin changed: " + d)]
        # the object the caller passed (the table took a copy of it) is then given to the OTHER twin too:
        # the first table must not notice
        arg = getattr(self, "_last_aux", {}).get("arg")
        if op.get("arg_to_other") and other is not None and arg is not None:
            from odfdo import Cell, Column, Row

            try:
                snap2 = self._twin_obs(active)
                ts.reapply_with_arg(other.table, op, arg)  # the same call, on the other table, with the same object
                now2 = self._twin_obs(active)
            except Exception:
                self.stats.probe("arg_to_other_raised")
                return vs
            self.stats.probe("arg_given_to_other_twin")
            d = ts.first_diff(snap2, now2)
            if d:
                return [Violation("C10", "twin-changed", op["op"], ["argument_reused_on_other_twin", "on_twin" if on_twin else "on_orig"], None,
                                  "giving the argument object of this call to the other twin changed this one: " + d)]
        return vs

    def _clone_item(self, op, tv):
        """Row.clone / Cell.clone: equal at birth, independent afterwards"""
        from odfdo import Cell

        t = self.sut.table
        what = op["op"][6:]
        x, y = op["c"]["x"], op["c"]["y"]
        if y >= tv.height:
            return []
        name = op["op"]
        before_xml = t.serialize()
        try:
            live_before = (t.size, ts.norm(t.get_values()))
            if what == "row":
                via = op.get("via", "get_row")
                if via == "get_row":
                    a = t.get_row(y, clone=False)
                elif via == "rows":
                    a = t.rows[y]
                elif via == "get_rows":
                    a = t.get_rows()[y]
                else:
                    a = list(t.traverse())[y]
                if via != "get_row":
                    a_vals = ts.norm(a.get_values())
                else:
                    # a copy of ANOTHER position of the same run is taken meanwhile: the live row stays where it is
                    rn, ri = tv.row_run_info(y)
                    if rn > 1:
                        y2 = y + 1 if ri < rn - 1 else y - 1
                        a_y = a.y
                        t.get_row(y2)
                        if a.y != a_y:
                            return [Violation("C10", "clone-modified-original", name, ["copy_of_another_position_of_the_run"], None,
                                              f"taking a copy of row {y2} changed the position of the live row of {y} to {a.y}")]
            else:
                if x >= len(tv.rows[y]):
                    return []
                a = t.get_cell((x, y), clone=False)
            a_ser = a.serialize()
            b = a.clone
        except Exception:
            self.resync()
            return []
        self.stats.probe("op:" + name)
        if t.serialize() != before_xml or a.serialize() != a_ser:
            return [Violation("C10", "clone-modified-original", name, [], None, "cloning changed the original")]
        if b.serialize() != a_ser:
            return [Violation("C10", "clone-differs-at-birth", name, [], None, "serialisation differs")]
        try:
            born = (b.y, b.width, ts.norm(b.get_values())) if what == "row" else (b.x, b.y, ts.norm(b.get_value()))
            orig = (a.y, a.width, ts.norm(a.get_values())) if what == "row" else (a.x, a.y, ts.norm(a.get_value()))
        except Exception as e:
            # the table itself answers (the engine reads it at every step): an original or a clone that cannot be read is a finding
            return [Violation("C10", "twin-unreadable", name, ["at_birth"], type(e).__name__, f"{type(e).__name__}: {e}")]
        if what == "row":
            if born != orig:
                return [Violation("C10", "clone-differs-at-birth", name, [], None, f"row y/width/values: clone ({b.y},{b.width}) original ({a.y},{a.width})")]
        else:
            if born != orig:
                return [Violation("C10", "clone-differs-at-birth", name, ["x0" if x == 0 else "x>0", "y0" if y == 0 else "y>0"], None, f"cell clone carries x={b.x} y={b.y}, original x={a.x} y={a.y}")]
        # mutate the clone: the original and the table must not notice
        mut = op.get("mut", "set_value")
        try:
            if what == "row":
                if mut == "set_value":
                    b.set_value(0, op["v"])
                elif mut == "append":
                    b.append_cell(Cell(op["v"]))
                elif mut == "delete":
                    b.delete_cell(0)
                elif mut == "insert":
                    b.insert_cell(0, Cell(op["v"]))
                elif mut == "style":
                    b.style = "clone_style"
                elif mut == "attach_rep":
                    # the clone goes into another table (as is) and changes its repeat count there
                    from odfdo import Table

                    t2 = Table("Elsewhere")
                    t2.append_row(b, clone=False)
                    b.repeated = 3
                else:
                    b.repeated = 3
            else:
                if mut == "style":
                    b.style = "clone_style"
                elif mut == "repeated":
                    b.repeated = 3
                else:
                    b.set_value(op["v"])
        except Exception:
            self.resync()
            return []
        if t.serialize() != before_xml or a.serialize() != a_ser:
            return [Violation("C10", "twin-changed", name, ["mutated_clone"], None, f"mutating ({mut}) the {what} clone changed the original")]
        try:
            live_after = (t.size, ts.norm(t.get_values()))
        except Exception as e:
            return [Violation("C10", "twin-unreadable", name, ["mutated_clone", "table_of_the_original"], type(e).__name__, str(e))]
        if live_after != live_before:
            return [Violation("C10", "twin-changed", name, ["mutated_clone", "table_of_the_original"], None,
                              f"mutating ({mut}) the {what} clone changed what the table of the original answers: size {live_before[0]} -> {live_after[0]}")]
        if what == "row":
            try:
                vals = ts.norm(a.get_values())
                w = a.width
            except Exception as e:
                return [Violation("C10", "twin-unreadable", name, ["mutated_clone"], type(e).__name__, str(e))]
            tvr = tv.rows[y]
            if w != len(tvr) or vals != ts.norm([c.value for c in tvr]):
                return [Violation("C10", "twin-changed", name, ["mutated_clone"], None, f"after mutating the clone the original row answers width {w} values {vals}")]
        # mutate the original through the table API: the clone must not notice
        b_ser = b.serialize()
        try:
            t.set_value((x if what == "cell" else 0, y), op["v"] + "o")
        except Exception:
            self.resync()
            return []
        if b.serialize() != b_ser:
            return [Violation("C10", "twin-changed", name, ["mutated_original"], None, f"editing the table changed a {what} clone taken earlier")]
        return []

    def _step1(self, op):
        prop = self.prop
        name = op["op"]
        if name == "init":
            self.sut.build(op)
            tv = self.sut.view()
            self.grid = Grid.from_view(tv)
            self.stats.probe("init_" + op["family"])
            if op.get("attached"):
                self.stats.probe("attached")
            base = xmlref.table_wellformed(ts.lx(self.sut.table))
            self.disabled_rules = {r for r, _ in base}
            if base:
                self.stats.probe("init_not_wellformed")
            self._outcome = "init"
            return self._oracles(op, tv, [], None, {}, initial=True)
        tv = self.sut.view()
        self._pre_height = tv.height
        self._pre_xml = None
        if self.prop != "C01":
            from lxml import etree as _et

            self._pre_xml = _et.tostring(ts.lx(self.sut.table), encoding="unicode")
        feats = ts.features(op, tv) if name in ts.GRID_MUTATIONS else []
        self.stats.transitions.add((ts.shape_class(tv), name if name != "read" else "read:" + op["kind"], tuple(feats)))
        for f in feats:
            self.stats.probe("feat:" + f)
        self.stats.probe("op:" + name)
        if name in ts.RAW_MUTATIONS:
            self.n_mut += 1
            self._after_whole_table_op = name in ("rstrip", "optimize_width", "transpose")
        if name in ts.GRID_MUTATIONS:
            self.n_mut += 1
            if any(f in feats for f in ("row_run", "cell_run", "col_run", "src_row_run")):
                self.n_mut_in_run += 1
            if self._last_was_read:
                self.n_warm_mut += 1
                self.stats.probe("warm_cache_mutation")
        elif name == "restart":
            self.n_restart += 1
        self._last_was_read = name == "read"
        if name == "law":
            self.n_law += 1
            vs = table_laws.run_law(self, op, tv)
            self._outcome = "law:" + (vs[0].oracle if vs else "ok")
            try:
                self.stats.states.add(ts.state_digest(self.sut.view()))
            except Exception:
                pass
            return vs
        if name in ("clone_row", "clone_cell"):
            vs = self._clone_item(op, tv)
            self._outcome = name + ":" + (vs[0].oracle if vs else "ok")
            return vs
        if name == "probe":
            self._outcome = "probe"
            self.n_probe += 1
            self._restore_xml = None
            vs = table_probes.run_probe(self, op, tv)
            self._outcome = "probe:" + (vs[0].oracle if vs else "ok")
            return vs
        aux = {}
        self._last_aux = aux
        sut_exc = None
        sut_exc_detail = ""
        try:
            ts.apply_sut(self.sut, op, aux)
        except HarnessError:
            raise
        except Exception as e:  # exception raised by the real code
            sut_exc = type(e).__name__
            sut_exc_detail = f"{type(e).__name__}: {e}"
        self._outcome = f"{name}:{sut_exc or 'ok'}"
        vs = self._oracles(op, tv, feats, sut_exc, aux, detail=sut_exc_detail)
        if name in ("live_row_rep", "live_cell_rep") and not vs and sut_exc is None:
            # the staleness these setters leave behind (known C02 findings) does not always show in the
            # reads of this very step; it must not be attributed to a later, innocent op: the table is
            # re-parsed from its XML before the history goes on
            self.stats.probe("live_rep_reparsed")
            self.sut.restart("xml")
            if self.prop == "C01":
                self.grid = Grid.from_view(self.sut.view())
        tv2 = None
        try:
            tv2 = self.sut.view()
            self.stats.states.add(ts.state_digest(tv2))
        except Exception:
            pass
        return vs

    # --------------------------------------------------------------- oracles
    def _oracles(self, op, tv, feats, sut_exc, aux, initial=False, detail=""):
        prop = self.prop
        name = op["op"]
        opname = name if name != "read" else "read:" + op["kind"]
        vs = []
        if prop == "C01":
            vs += self._oracle_c01(op, opname, feats, sut_exc, aux, initial, detail)
        else:
            if sut_exc is not None:
                # not this property's business: rebuild and go on (deliberately narrow)
                self.stats.probe("sut_raised_skipped")
                # a raising operation is C01's business; here the run goes on from the table
                # as it was before the call (a half-applied change is not a state to explore)
                if self._pre_xml is not None:
                    self._restore_xml = self._pre_xml
                self.resync()
                # a half-applied operation may legitimately leave the XML
                # structurally odd: re-baseline the structural rules
                self.disabled_rules |= {r for r, _ in xmlref.table_wellformed(ts.lx(self.sut.table))}
                return []
            if prop == "C02":
                vs += self._oracle_c02(op, opname, feats)
            elif prop == "C07":
                vs += self._oracle_c07(op, opname, feats)
        return vs

    def _observe_live(self, plan):
        try:
            return ts.observe_table(self.sut.table, plan), None
        except Exception as e:
            return None, f"{type(e).__name__}: {e}"

    def _oracle_c01(self, op, opname, feats, sut_exc, aux, initial, detail):
        vs = []
        if not initial and op["op"] in ts.GRID_MUTATIONS:
            model_rejects = False
            try:
                ts.apply_model(self.grid, op, aux)
            except Rejects:
                model_rejects = True
            if model_rejects:
                self.stats.probe("model_rejects")
                if sut_exc is None:
                    vs.append(Violation("C01", "must-reject", opname, feats, None, "the documented API refuses this call but it returned normally"))
                    return vs
            elif sut_exc is not None:
                vs.append(Violation("C01", "raises", opname, feats, sut_exc, detail))
                return vs
        elif sut_exc is not None:
            vs.append(Violation("C01", "raises", opname, feats, sut_exc, detail))
            return vs
        plan = op.get("obs", {"level": "full"})
        if plan.get("level") == "none":
            return vs
        live, err = self._observe_live(plan)
        if err:
            vs.append(Violation("C01", "read-raises", opname, feats, err.split(":")[0], err))
            return vs
        want = ts.observe_grid(self.grid, plan)
        d = ts.first_diff(live, want)
        if d:
            vs.append(Violation("C01", "matrix", opname, feats, None, "live vs model " + d))
        return vs

    def _oracle_c02(self, op, opname, feats):
        vs = []
        plan = op.get("obs", {"level": "full"})
        if plan.get("level") == "none":
            return vs
        live, err = self._observe_live(plan)
        try:
            fresh_t = self.sut.fresh_copy()
            fresh = ts.observe_table(fresh_t, plan)
        except Exception as e:
            # the XML itself cannot be read back: report as such
            vs.append(Violation("C02", "fresh-unreadable", opname, feats, type(e).__name__, str(e)))
            return vs
        if err:
            vs.append(Violation("C02", "live-read-raises", opname, feats, err.split(":")[0], err))
            return vs
        d = ts.first_diff(live, fresh)
        if d:
            vs.append(Violation("C02", "fresh-parse", opname, feats, None, "live vs re-parsed " + d))
            return vs
        ind = ts.observe_grid(Grid.from_view(self.sut.view()), plan)
        d = ts.first_diff(live, ind)
        if d:
            vs.append(Violation("C02", "independent-reader", opname, feats, None, "live vs independent expansion " + d))
            return vs
        if self.sut.doc is not None and plan.get("level") == "full":
            import io
            from odfdo import Document

            self.stats.probe("reload_compare")
            buf = io.BytesIO()
            self.sut.doc.save(buf)
            buf.seek(0)
            doc2 = Document(buf)
            pos = self.sut.position()
            if pos is None:
                vs.append(Violation("C02", "reload", opname, feats, None, "the table the caller holds is not in the document body any more"))
                return vs
            t2 = doc2.body.get_tables()[pos]
            re_obs = ts.observe_table(t2, plan)
            d = ts.first_diff(live, re_obs)
            if d:
                vs.append(Violation("C02", "reload", opname, feats, None, "live vs saved+reloaded " + d))
        return vs

    def _oracle_c07(self, op, opname, feats):
        vs = []
        t = self.sut.table
        problems = xmlref.table_wellformed(ts.lx(t))
        for rule, det in problems:
            if rule in self.disabled_rules:
                continue
            if rule == "rows-without-columns" and self._pre_height != 0:
                # the property only says: adding the FIRST row declares the columns
                continue
            vs.append(Violation("C07", rule, opname, feats, None, det))
            return vs
        tv = self.sut.view()
        if t.height != sum(tv.row_runs):
            vs.append(Violation("C07", "height", opname, feats, None, f"height {t.height} != sum of row repeats {sum(tv.row_runs)}"))
        elif t.width != sum(tv.col_runs):
            vs.append(Violation("C07", "width", opname, feats, None, f"width {t.width} != sum of column repeats {sum(tv.col_runs)}"))
        return vs

    # ---------------------------------------------------------------- resync
    def resync(self):
        """after a known finding: SUT := fresh parse of its own XML when that
        XML is structurally sound, model := independent expansion of the SUT"""
        try:
            if self._restore_xml is not None:
                # a probe mutated the table through an aliased object: go
                # back to the table as it was before the probe
                self.sut.replace_from_xml(self._restore_xml)
                self._restore_xml = None
            else:
                self.sut.restart("xml")
        except Exception as e:
            raise HarnessError(f"resync failed: {e}")
        self.grid = Grid.from_view(self.sut.view())
        self._last_was_read = False

    def finish(self):
        return []
