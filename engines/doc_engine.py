"""Engine D: generator + oracles for the document / package properties
(C03, C04, C10 document leg, C11; C13 and C15 add their own op families)."""
from __future__ import annotations

import hashlib
import io
import os
import shutil
import tempfile

from lxml import etree

from simkit import env as simenv
from simkit import xmlref
from simkit.kernel import HarnessError, Violation
from engines import docsim as ds
from engines import doc_styles
from engines import doc_reads

EXT = {"text": ".odt", "spreadsheet": ".ods", "presentation": ".odp", "drawing": ".odg", "graphics": ".odg"}
IMG1 = "/repo/tests/samples/image.png"
IMG2 = "/repo/tests/samples/image2.jpg"


def _blob(i: int) -> bytes:
    """deterministic small binary payloads; equal i = equal content"""
    return b"\x89BLOB" + hashlib.sha256(str(i).encode()).digest() * (1 + i % 3)


class DocEngine:
    name = "D"

    # ------------------------------------------------------------------ cfg
    @classmethod
    def gen_cfg(cls, rng, prop, tier):
        cfg = {}
        deep = tier == "thorough"
        cfg["max_steps"] = rng.choice([4, 6, 8, 10, 14, 18, 25] + ([32, 40] if deep else []), "max_steps")
        cfg["max_saves"] = 10 if deep else 6
        cfg["p_fault"] = rng.choice([0.0, 0.0, 0.3, 0.6] + ([0.8] if deep else []), "p_fault") if prop in ("C03", "C04", "C11") else 0.0
        cfg["p_clock"] = rng.choice([0.0, 0.3, 0.7], "p_clock")
        cfg["p_touch"] = rng.choice([0.05, 0.2, 0.4], "p_touch")
        cfg["p_save"] = rng.choice([0.15, 0.25, 0.4], "p_save")
        cfg["p_reopen"] = rng.choice([0.3, 0.5, 0.8], "p_reopen")
        cfg["src_family"] = rng.weighted([("template", 3), ("sample", 5)], "src_family")
        if prop == "C10":
            cfg["p_clone"] = rng.choice([0.15, 0.3, 0.6], "p_clone")
            cfg["p_blind"] = rng.choice([0.0, 0.5, 0.9], "p_blind")
        if prop == "C15":
            cfg["start_empty"] = rng.chance(0.3, "start_empty")
        if prop == "C13":
            # swarm: most insertions of a run go to a few focus families, so that the same
            # family sees named, unnamed, automatic and common insertions one after the other
            from engines import doc_styles as _ds
            fams = _ds.STD_FAMILIES + sorted(_ds.XML_FAMILIES)
            cfg["focus_families"] = rng.sample(fams, rng.randint(1, 3, "nfocus"), "focus")
        return cfg

    # ----------------------------------------------------------------- init
    def __init__(self, prop, cfg, stats):
        self.prop = prop
        self.cfg = cfg
        self.stats = stats
        base = os.environ.get("VERIF_SCRATCH") or ("/dev/shm" if os.path.isdir("/dev/shm") else None)
        self.scratch = tempfile.mkdtemp(prefix="odfdo-verif-D-", dir=base)
        self.env = simenv.SimEnv(self.scratch)
        simenv.install(self.env)
        self.cwd0 = os.getcwd()
        os.chdir(self.scratch)
        self.sut = ds.DocSUT(self.scratch)
        if prop == "C15":
            import odfdo.mixin_md as _mm

            _mm.MD_GLOBAL.clear()  # process-global export context: every run starts from the import-time state
            self.canary0 = doc_reads.md_canary()
        self.artifacts = []  # {"path"|"data", "packaging", "expected", "mimetype"}
        self.baseline_c04 = set()
        self.flags = set()
        self.counter = 0
        self._outcome = ""
        self.n_saves = 0
        self.n_reopen = 0
        self.n_edits = 0
        self.n_faults = 0
        self.last_buf = None  # the BytesIO of the last save to a buffer (may be reused as a target)
        self.other = None  # C13: a second document (merge source)
        self.c13_inserted = []
        self.c13_latest = {}
        self.c13_display = {}  # table index -> last flag given to set_table_displayed
        self.shadow = None  # the original left behind by clone_swap
        self.twin = None  # C10: (DocSUT) the other twin
        self.n_twin_ops = 0
        self.n_twins = 0
        self.n_reads_run = 0

    def close(self):
        try:
            os.chdir(self.cwd0)
        except Exception:
            pass
        simenv.uninstall()
        shutil.rmtree(self.scratch, ignore_errors=True)
        self.stats.c["sim_time_s"] += int(self.env.now - 1_700_000_000)

    def outcome(self):
        return self._outcome

    def state_digest(self):
        st = self.sut.store
        if st is None:
            return "-"
        h = hashlib.sha1()
        for n in sorted(st.names()):
            h.update(n.encode())
        h.update(repr(sorted(st.touched)).encode())
        h.update(repr(sorted(self.flags)).encode())
        h.update(str(len(self.artifacts)).encode())
        return h.hexdigest()[:16]

    def nontrivial(self):
        if self.prop == "C10":
            return self.n_twin_ops >= 2
        if self.prop == "C15":
            return self.stats.c.get("op:read", 0) >= 1 and self.n_reads_run >= 2
        return self.n_saves >= 1 and (self.n_edits >= 1 or self.n_reopen >= 1)

    # ------------------------------------------------------------ generators
    def _doc_type(self):
        mt = self.sut.store.mimetype
        return mt.rsplit(".", 1)[-1].replace("-template", "")

    def gen_init(self, rng):
        if self.cfg["src_family"] == "template":
            init = {"op": "init", "source": "template:" + rng.choice(ds.TEMPLATES, "tpl")}
            if self.prop in ("C03", "C04", "C10") and rng.chance(0.3, "customtpl"):
                # a document of the user's used as template (Document.new(path)): same types as the stock templates
                init = {"op": "init", "source": "newfrom:" + rng.choice(["example.odt", "md_style.odt", "frame_image.odp", "background.odp", "simple_table.ods", "chart.odt"], "ctpl"),
                        "how": rng.choice(["path", "pathobj"], "ctplhow")}
                if rng.chance(0.6, "tpl_changes"):
                    init["template_changes_later"] = True  # the template file is replaced by another document right after: the new document is a copy, not a view
        else:
            samples = [x for x in ds.DOC_SAMPLES if x != "styled_table.ods"] if self.prop == "C15" else ds.DOC_SAMPLES  # (bounded table sizes)
            init = {"op": "init", "source": "sample:" + rng.choice(samples, "sample"),
                    "how": rng.weighted([("path", 4), ("pathobj", 1), ("bytesio", 2), ("folder", 3), ("foreign", 2)], "how"),
                    "salt": rng.randint(0, 9, "salt")}
        return init

    def _dt(self, rng):
        if rng.chance(self.cfg["p_clock"], "clock?"):
            return rng.choice([0.2, 0.6, 1.0, 2.5, 3.0, -2.0], "dt")
        return 0.0

    def gen_op(self, rng):
        st = self.sut.store
        cfg = self.cfg
        weights = [("touch", 10 * cfg["p_touch"]), ("edit", 4), ("set_part", 2 if self.prop in ("C03", "C10") else 0), ("del_part", 1.5),
                   ("add_file", 2.5), ("save", 12 * cfg["p_save"] if self.n_saves < cfg["max_saves"] else 0),
                   ("reopen", (6 * cfg["p_reopen"]) if self._reopenable() else 0)]
        if self.prop in ("C04", "C03"):
            nm = len(getattr(self, "_merged_srcs", []))
            weights += [("clone_swap", 1), ("merge_styles", (1.2 if nm == 0 else (3 if nm < 3 else 0)) if self.prop == "C04" else 0), ("save_other", 2 if self.shadow else 0),
                        ("add_extra", 1.5 if self.prop == "C04" else 0)]
        if self.sut.src["kind"] == "folder" and self.prop in ("C03", "C04", "C11"):
            weights += [("env_touch_source", 1.5 if not (self.prop == "C03" and st.over) else 4)]
        if self.prop in ("C10", "C03"):
            weights += [("set_part_many", 2.5 if (self.prop == "C10" and self.twin is None) else 0.8)]
        if self.prop == "C10":
            if self.twin is None and rng.chance(self.cfg.get("p_clone", 0.45), "clone?"):
                op = {"op": "clone_doc"}
                if rng.chance(0.2, "clonefault?"):
                    op["fault"] = {"site": rng.choice(["zip_read", "read_bytes", "zip_open_r"], "cfsite"), "k": rng.randint(1, 6, "cfk"), "errno": "EIO"}
                return op
            weights += [("twin_package_check", 1.5 if self.twin is not None else 0), ("clone_part", 2), ("clone_container", 1), ("twin_save_over_source", 1.5 if (self.twin is not None and self.sut.src.get("path") and self.sut.src["packaging"] == "zip") else 0)]
        if self.prop == "C15" and cfg.get("start_empty") and len(self.stats.c) and self.stats.c.get("op:clear_body", 0) == 0 and self.stats.c.get("op:read", 0) == 0 and self._doc_type() == "text":
            return {"op": "clear_body"}
        if self.prop == "C15":
            weights = [("read", 14), ("edit", 3), ("rich_para", 2), ("clear_body", 0.5), ("touch", 1), ("add_file", 0.5),
                       ("save", 1.5 if self.n_saves < cfg["max_saves"] else 0), ("reopen", 1.5 if self._reopenable() else 0)]
        if self.prop == "C13":
            weights = [("ins_style", 9), ("ins_style_other", 3 if self.other is not None else 0), ("open_other", 1.5 if self.other is None else 0.3),
                       ("merge", 2.5 if self.other is not None else 0), ("page_break_style", 1), ("table_displayed", 1.5 if self._doc_type() == "spreadsheet" else 0),
                       ("clone_swap", 1),
                       ("relookup", 2), ("touch", 1), ("edit", 1), ("save", 2.5 if self.n_saves < cfg["max_saves"] else 0), ("reopen", 3 if self._reopenable() else 0)]
        if self.prop == "C11":
            weights = [("touch", 10 * cfg["p_touch"]), ("edit", 3), ("rich_para", 6), ("add_file", 1), ("set_part", 1.5), ("del_part", 1), ("set_mimetype", 0.8), ("save_set", 10 * cfg["p_save"] if self.n_saves < cfg["max_saves"] else 0),
                       ("reopen", (3 * cfg["p_reopen"]) if self._reopenable() else 0)]
        name = rng.weighted(weights, "op")
        op = {"op": name}
        dt = self._dt(rng)
        if dt:
            op["dt"] = dt
        self.counter += 1
        n = self.counter
        if name == "touch":
            op["part"] = rng.choice(["content", "meta", "styles", "settings", "manifest"], "part")
            if rng.chance(self.cfg["p_fault"], "rfault?"):
                # an I/O error in the middle of a lazy load
                op["fault"] = {"site": rng.choice(["zip_read", "read_bytes", "zip_open_r"], "rfsite"), "k": 1, "errno": rng.choice(["EIO", "EACCES"], "rferr")}
        elif name == "edit":
            op["kind"] = rng.choice(["para", "heading", "list", "table", "image", "meta_title", "meta_user", "meta_keyword", "style", "delete_last"] + (["numlist", "numlist", "foreign_named_range", "xml_prolog", "meta_sparse", "toc_unfilled", "tracked_xmlid"] if self.prop == "C15" else []) + (["meta_generator"] if self.prop == "C03" else []), "ekind")
            op["n"] = n
            if self.prop == "C15" and self._doc_type() == "spreadsheet" and rng.chance(0.25, "fnr?"):
                op["kind"] = "foreign_named_range"
            if self.prop == "C11" and "added_image_frame" in self.flags and rng.chance(0.3, "img_again"):
                op["kind"] = "image"  # the same picture in one more frame
            subs = sorted(x for x in st.names() if "/" in x and x.rsplit("/", 1)[-1] in ("content.xml", "styles.xml") and not x.startswith("META-INF"))
            if subs and rng.chance(0.5, "subobj?"):
                op["kind"] = "subobject"
                op["name"] = rng.choice(subs, "subname")
        elif name == "set_part":
            kind = rng.weighted([("xml", 5), ("bin_existing", 2), ("new", 2 if self.prop != "C11" else 0)], "spkind")
            op["kind"] = kind
            op["n"] = n
            if kind == "xml":
                op["name"] = rng.choice(["content.xml", "styles.xml", "meta.xml", "settings.xml"], "spname")
                if self.prop in ("C03", "C10") and rng.chance(0.35, "prolog"):
                    op["prolog"] = True
            elif kind == "bin_existing":
                cands = sorted(x for x in st.names() if not ds.is_xml_part(x) and x != "mimetype" and not x.endswith("/") and x != ds.RDF)
                if not cands:
                    op["kind"] = "new"
                    op["name"] = f"Extra/blob{n}.bin"
                else:
                    op["name"] = rng.choice(cands, "spbin")
            else:
                op["name"] = f"Extra/blob{n}.bin"
        elif name == "del_part":
            # (Document.del_part refuses every part whose base name is one of the
            # standard XML part names, also inside sub-documents: precondition)
            std_base = {"content.xml", "meta.xml", "styles.xml", "settings.xml", "manifest.xml"}
            cands = sorted(x for x in st.names() if x.rsplit("/", 1)[-1] not in std_base and x != "mimetype" and (x != ds.RDF or self.prop == "C04") and not x.endswith("/"))
            if self.prop == "C11":
                # (a picture still referenced by a draw:image changes what the flat export does with that image:
                # only unreferenced files are deleted here)
                cands = [x for x in cands if not x.startswith(("Pictures/", "Object", "media/"))]
            if not cands:
                return {"op": "touch", "part": "manifest"}
            # bias: names that are a prefix of / prefixed by another name (same content added
            # from a path and from a file-like object gives Pictures/<hash>.bin and Pictures/<hash>)
            near = [x for x in cands if any(y != x and (y.startswith(x) or x.startswith(y)) for y in st.names() if not y.endswith("/"))]
            if near and rng.chance(0.6, "dpnear"):
                cands = near
            op["name"] = rng.choice(cands, "dpname")
        elif name == "add_file":
            op["via"] = rng.choice(["path", "pathobj", "bytesio", "chunked", "image", "path_odd"], "via")
            # repeated content allowed: small id space
            op["content"] = rng.randint(0, 3, "content")
            prev = getattr(self, "_added", [])
            if prev and rng.chance(0.4, "add_again"):
                # the same content once more, through the other kind of argument
                cid, pvia = rng.choice(prev, "add_prev")
                op["content"] = cid
                op["via"] = rng.choice(["bytesio", "chunked"] if pvia in ("path", "pathobj", "image") else ["path", "pathobj"], "via2")
        elif name == "save":
            op.update(self._gen_save(rng))
        elif name == "reopen":
            arts = [i for i, a in enumerate(self.artifacts) if a["packaging"] in ("zip", "folder") and not a.get("dead")]
            op["art"] = rng.choice(arts, "art")
            a = self.artifacts[op["art"]]
            if a["packaging"] == "folder":
                op["how"] = "folderpath"
            else:
                op["how"] = rng.weighted([("path", 4), ("bytesio", 2), ("folder", 2), ("foreign", 1)], "rhow")
            op["salt"] = rng.randint(0, 9, "salt")
        elif name == "rich_para":
            op["xml"] = self._gen_rich_para(rng, n)
        elif name == "save_set":
            variants = [("zip", True), ("folder", None), ("folder", False), ("xml", None), ("xml", False), ("zip", None)]
            k = rng.randint(1, 4, "nvariants")
            op["variants"] = [{"packaging": pk, "pretty": pr, "target": ("bytesio" if pk != "folder" and rng.chance(0.5, "vt") else "path")} for pk, pr in rng.sample(variants, k, "variants")]
            if self.sut.src["kind"] == "folder" and self.sut.src.get("path") and rng.chance(0.4, "inplace_variant"):
                # last of the set: the folder the document was opened from is saved in place
                op["variants"].append({"packaging": "folder", "pretty": rng.choice([None, False], "ipretty"), "target": "inplace"})
                if rng.chance(0.5, "ibackup"):
                    op["variants"][-1]["backup"] = True
            if rng.chance(0.3, "reuse_buf"):
                op["reuse_buffer"] = True  # zip variants written to a buffer go to ONE buffer, one after the other
            if self.n_saves == 0 and rng.chance(0.3, "xml_first"):
                op["xml_first"] = True  # the flat export is the very first save (nothing loaded by an earlier one)
            if rng.chance(self.cfg["p_fault"], "fault?"):
                op["fault"] = {"site": rng.choice(["writestr", "write_bytes", "bytesio_write", "mkdir", "rmtree", "zip_read", "zip_open_r", "read_bytes"], "fsite"), "k": rng.randint(1, 6, "fk"), "errno": rng.choice(["ENOSPC", "EIO"], "ferr"), "partial": rng.chance(0.5, "fpartial"), "at": rng.randint(-1, k - 1, "fat")}
                if op["fault"]["at"] == -1:
                    # the first save is where the parts not read yet are fetched
                    op["fault"]["site"] = rng.choice(["zip_read", "zip_read", "zip_read", "zip_open_r", "read_bytes", "writestr"], "fsite0")
        elif name in ("ins_style", "ins_style_other"):
            op = doc_styles.gen_insert(self, rng, n, "main" if name == "ins_style" else "other")
            op["op"] = name
            if name == "ins_style_other" and op["family"] in doc_styles.STD_FAMILIES and rng.chance(0.3, "styles_auto"):
                op["into_styles_automatic"] = True
                op["kind"] = "common"
                op["name"] = rng.choice(["simX", "simY"], "sa_name")
                op["name_via"] = "ctor"
            if dt:
                op["dt"] = dt
        elif name == "open_other":
            op["source"] = rng.choice(["template:text", "template:spreadsheet", "sample:lpod_styles.odt", "sample:span_style.odt", "sample:example.odt", "sample:styled_table.ods", "sample:example.odp",
                                       "sample:issue_28_pretty.odt", "sample:simple_table.ods", "sample:minimal_hidden.ods"], "osrc")
        elif name == "table_displayed":
            op["displayed"] = rng.chance(0.5, "disp")
            op["table"] = rng.randint(0, 2, "tdtable")
            op["times"] = rng.choice([1, 1, 2, 4, 12], "tdtimes")  # (generated style names: many in a row)
        elif name == "read":
            k = rng.choice([1, 1, 2, 3, 5], "nreads")
            # exports and string conversions carry the process-global context: drawn more often
            heavy = [e for e in doc_reads.ENTRY_NAMES if e.startswith(("doc.to_markdown", "doc.get_formatted_text", "str(", "lists:", "body.inner_text", "tables: get_formatted", "tables: str"))]
            op["entries"] = [rng.choice(heavy, "entry_h") if rng.chance(0.45, "heavy?") else rng.choice(doc_reads.ENTRY_NAMES, "entry") for _ in range(k)]
        elif name == "page_break_style":
            if rng.chance(0.35, "pbpre"):
                # a style of that name is already there (another tool's, or an older odfdo's) and is not a page break
                op["pre"] = rng.choice(["column", "auto"], "pbprev")
        elif name == "env_touch_source":
            files = sorted(x for x in st.base if not x.endswith("/"))
            op["name"] = rng.choice(files, "touchname") if files else "mimetype"
            hot = sorted(x for x in files if x in st.over or x in st.touched)
            if hot and rng.chance(0.6, "touchhot"):
                op["name"] = rng.choice(hot, "touchhotname")  # a file whose part the history set / parsed in memory
            op["dt2"] = rng.choice([0.0, 1.0, 2.0, -1.0], "dt2")
        elif name == "set_part_many":
            op["k"] = rng.choice([2, 5, 12, 16, 20, 30], "many_k")
            op["n"] = n
        elif name == "clone_part":
            op["part"] = rng.choice(["content", "meta", "styles", "manifest"], "cpart")
            op["n"] = n
        elif name == "clone_swap":
            pass
        if self.prop == "C10" and self.twin is not None and name not in ("clone_doc", "twin_save_over_source", "reopen") and rng.chance(0.5, "on"):
            op["on"] = "twin"
        if self.prop == "C10" and self.twin is not None and rng.chance(self.cfg.get("p_blind", 0.5), "blind?"):
            # reading the untouched twin loads its lazily loaded parts: in part of the steps it
            # is left alone, so that a twin can still be lazy when the other one overwrites its source
            op["observe_other"] = False
        if name == "merge_styles":
            op["src"] = "sample:" + rng.choice(["lpod_styles.odt", "span_style.odt", "md_style.odt", "example.odt", "background.odp", "example.odp", "frame_image.odp"], "msrc")
            prev = getattr(self, "_merged_srcs", [])
            if prev and rng.chance(0.6, "merge_again"):
                op["src"] = rng.choice(prev, "msrc_prev")  # the same source merged once more
        if name == "add_extra":
            # an extra file put into the package by hand: set_part + Manifest.add_full_path (public API),
            # small name space so that the same part is updated and registered again
            op["name"] = "Extra/" + rng.choice(["e0.bin", "e1.bin", "sub/e2.bin"], "xname")
            op["n"] = n
            op["media"] = rng.choice(["", "", "application/octet-stream"], "xmedia")
        return op

    @staticmethod
    def _rle_table(n, name):
        """a table as office suites store it: runs of repeated rows and of repeated cells (built from XML)"""
        from odfdo import Element

        def cell(v, k=1):
            rep = f' table:number-columns-repeated="{k}"' if (k > 1 or (k == 1 and n % 5 == 0)) else ""
            if v is None:
                return f"<table:table-cell{rep}/>"
            return f'<table:table-cell{rep} office:value-type="string"><text:p>{v}</text:p></table:table-cell>'

        def row(cells, k=1):
            # (a repeat count of 1 written out is valid ODF; some producers do it)
            rep = f' table:number-rows-repeated="{k}"' if (k > 1 or (k == 1 and n % 3 == 0)) else ""
            return f"<table:table-row{rep}>{cells}</table:table-row>"

        a, b = 2 + n % 3, 2 + (n // 2) % 2
        xml = (f'<table:table table:name="{name}"><table:table-column table:number-columns-repeated="6"/>'
               + row(cell(f"a{n}", a) + cell("x") + cell(None, 5 - a), 3 if n % 4 == 1 else 1)
               + row(cell(f"b{n}") + cell("y", 2) + cell(f"z{n}", 3))
               + row(cell(f"c{n}", 3) + cell(None, 3), b)
               + row(cell(f"d{n}") + cell(None, 2) + cell("w", 3))
               + "</table:table>")
        return Element.from_tag(xml)

    def _gen_rich_para(self, rng, n):
        """a text:p / text:h mixing text with text:s, tab, line-break, spans,
        links, notes, frames, bookmarks ... in seeded adjacency"""
        # character data as other producers write it: runs of blanks, tabs and line
        # feeds inside text collapse to one space for a consumer
        words = ["alpha", "beta", "gamma", "delta", "x", "Hello", "world", "\nsecond line", "two  blanks", "\ttabbed", " lead", "wrapped\n      text"]

        def inline(depth):
            k = rng.weighted([("text", 6), ("s", 3), ("s2", 2), ("tab", 3), ("lb", 3), ("span", 3 if depth < 2 else 0), ("a", 2 if depth < 2 else 0),
                              ("note", 1.5 if depth == 0 else 0), ("frame", 1 if depth == 0 else 0), ("bookmark", 1.5), ("annotation", 1 if depth == 0 else 0),
                              ("refmark", 1), ("pagenum", 1), ("softbreak", 0.5), ("varset", 1 if self.prop == "C15" else 0),
                              ("meta", 1.2 if depth < 2 else 0)], "inl")
            if k == "text":
                w = rng.choice(words, "w")
                return w + (" " if rng.chance(0.5, "sp") else "")
            if k == "s":
                return "<text:s/>"
            if k == "s2":
                return '<text:s text:c="%d"/>' % rng.randint(2, 4, "c")
            if k == "tab":
                return "<text:tab/>"
            if k == "lb":
                return "<text:line-break/>"
            if k == "span":
                return '<text:span text:style-name="T1">' + "".join(inline(depth + 1) for _ in range(rng.randint(0, 3, "nspan"))) + "</text:span>"
            if k == "a":
                return '<text:a xlink:type="simple" xlink:href="http://example.com/">' + "".join(inline(depth + 1) for _ in range(rng.randint(1, 2, "na"))) + "</text:a>"
            if k == "note":
                cit = "<text:note-citation>%d</text:note-citation>" % n if rng.chance(0.6, "citation?") else "<text:note-citation/>"  # (automatic numbering: no citation text)
                return ('<text:note text:id="ftn%d" text:note-class="footnote">%s<text:note-body>'
                        '<text:p text:style-name="Footnote">note %d<text:tab/>body</text:p></text:note-body></text:note>' % (n, cit, n))
            if k == "varset":
                return '<text:variable-set text:name="var%d" office:value-type="float" office:value="%d">%d</text:variable-set>' % (n % 3, n, n)
            if k == "frame":
                return ('<draw:frame draw:name="fr%d" text:anchor-type="as-char" svg:width="2cm" svg:height="1cm"><draw:text-box>'
                        '<text:p>in frame<text:s/>%d</text:p></draw:text-box></draw:frame>' % (n, n))
            if k == "bookmark":
                return '<text:bookmark text:name="bm%d"/>' % n
            if k == "meta":
                # RDF-annotated text / a metadata field: inline containers of text AND elements
                tag = rng.choice(["text:meta", "text:meta-field"], "metatag")
                inner = "".join(inline(depth + 1) for _ in range(rng.randint(1, 3, "nmeta")))
                return '<%s xml:id="mt%d">marked <text:span text:style-name="T1">part</text:span> %s here</%s>' % (tag, n, inner, tag)
            if k == "annotation":
                if self.prop == "C15" and rng.chance(0.5, "undated"):
                    return '<office:annotation><dc:creator>sim</dc:creator><text:p>undated annot %d</text:p></office:annotation>' % n  # (dc:date is optional)
                return '<office:annotation><dc:creator>sim</dc:creator><dc:date>2024-01-01T00:00:00</dc:date><text:p>annot %d</text:p></office:annotation>' % n
            if k == "refmark":
                if depth == 0 and self.prop == "C15" and rng.chance(0.6, "rmrange"):
                    # a range between paired marks that holds whole elements, as office suites write it
                    mid = "".join(inline(depth + 1) for _ in range(rng.randint(1, 3, "nrm")))
                    if rng.chance(0.5, "rmkind"):
                        return ('<text:reference-mark-start text:name="rr%d"/>ref <text:span text:style-name="T1">inside</text:span>%s<text:line-break/>tail'
                                '<text:reference-mark-end text:name="rr%d"/>' % (n, mid, n))
                    return ('<office:annotation office:name="an%d"><dc:creator>sim</dc:creator><dc:date>2024-01-01T00:00:00</dc:date><text:p>ranged %d</text:p></office:annotation>'
                            'noted <text:span text:style-name="T1">inside</text:span>%s<office:annotation-end office:name="an%d"/>' % (n, n, mid, n))
                return '<text:reference-mark text:name="rm%d"/>' % n
            if k == "pagenum":
                return '<text:page-number text:select-page="current">1</text:page-number>'
            return "<text:soft-page-break/>"

        body = "".join(inline(0) for _ in range(rng.randint(1, 7, "ninl")))
        if rng.chance(0.25, "h?"):
            return '<text:h text:outline-level="1">%s</text:h>' % body
        return "<text:p>%s</text:p>" % body

    def _reopenable(self):
        return any(a["packaging"] in ("zip", "folder") and not a.get("dead") for a in self.artifacts)

    def _gen_save(self, rng):
        prop = self.prop
        s = {}
        if prop == "C04":
            # the property judges the zips; a folder save in between is one more thing "done to the document"
            s["packaging"] = rng.weighted([("zip", 7), ("folder", 2)], "packaging")
        else:
            s["packaging"] = rng.weighted([("zip", 6), ("folder", 3), ("xml", 1)], "packaging")
        has_path = self.sut.src["path"] is not None
        tk = [("path", 5), ("path_noext", 1)]
        if s["packaging"] != "folder":
            tk.append(("bytesio", 3))
        if has_path and s["packaging"] == self.sut.src["packaging"] and s["packaging"] in ("zip", "folder"):
            tk.append(("inplace", 2))
        if s["packaging"] == "zip" and self.last_buf is not None:  # (a zip may follow other data in a buffer; flat XML may not)
            tk.append(("bytesio_reuse", 1.5))  # a buffer that already holds an earlier save, positioned at its end
        if s["packaging"] == "folder":
            tk.append(("dotfolder", 1))
        if any(a.get("path") and a["packaging"] == s["packaging"] and not a.get("dead") for a in self.artifacts):
            tk.append(("existing", 2 if not (prop == "C04" and s["packaging"] == "folder") else 8))  # (C04: a folder saved again at the same place, then reopened and zipped)
        if prop == "C10" and s["packaging"] == "folder":
            # a document opened from a folder is by design a live view of that folder
            # (parts are read again when their file changes): overwriting the folder one
            # twin reads from is an external writer, which no property covers
            tk = [t for t in tk if t[0] not in ("existing", "inplace")]
        s["target"] = rng.weighted(tk, "target")
        if s["target"] == "existing":
            idx = [i for i, a in enumerate(self.artifacts) if a.get("path") and a["packaging"] == s["packaging"] and not a.get("dead")]
            s["existing"] = rng.choice(idx, "existing")
        if s["target"] in ("existing", "inplace", "path") and rng.chance(0.3, "backup"):
            s["backup"] = True
        if prop in ("C03", "C10", "C13"):
            s["pretty"] = False
        elif prop == "C04":
            # the package inspector does not compare XML text: pretty saves are in
            s["pretty"] = rng.choice([None, False, False, True], "pretty")
        else:
            s["pretty"] = rng.choice([None, True, False], "pretty")
        if rng.chance(0.15, "chdir"):
            s["chdir"] = True
        if rng.chance(self.cfg["p_fault"], "fault?"):
            site = rng.choice(["writestr", "zip_read", "write_bytes", "read_bytes", "rmtree", "move", "bytesio_write", "mkdir"], "fsite")
            s["fault"] = {"site": site, "k": rng.randint(1, 8, "fk"), "errno": rng.choice(["ENOSPC", "EIO", "EACCES"], "ferr"), "partial": rng.chance(0.5, "fpartial")}
        return s

    # ------------------------------------------------------------------ step
    def step(self, op):
        name = op["op"]
        self.stats.probe("op:" + name)
        if op.get("dt"):
            self.env.advance(op["dt"])
            self.stats.probe("env:clock-jump-back" if op["dt"] < 0 else "env:clock-advance")
        if name == "init":
            self.sut.open_init(op)
            self.stats.probe("env:open-" + self.sut.src["kind"])
            if op.get("how") == "foreign":
                self.stats.probe("env:foreign-writer-shape")
            self._outcome = "init"
            self.stats.transitions.add(("init", op["source"].split(":")[0], op.get("how", "-")))
            return self._after_open(op)
        handler = getattr(self, "_op_" + name)
        if self.prop == "C10" and name not in ("clone_doc",):
            return self._step_c10(op, handler)
        try:
            vs = handler(op)
        except HarnessError:
            raise
        self.stats.transitions.add((name, self.sut.src["kind"], tuple(sorted(self.flags)), op.get("packaging"), op.get("target"), op.get("kind"), op.get("part")))
        self.stats.states.add(self.state_digest())
        return vs or []

    # ---- C10, document leg: two twins, interleaved histories --------------------------
    def _step_c10(self, op, handler):
        name = op["op"]
        on_twin = op.get("on") == "twin" and self.twin is not None
        if name == "reopen":
            # the restart replaces the primary; the twin relation ends
            self.twin = None
        active, other = (self.twin, self.sut) if on_twin else (self.sut, self.twin)
        snap = None
        if other is not None and name not in ("touch",) and op.get("observe_other", True):
            try:
                snap = self._twin_expected(other)  # (does not load anything: the other twin stays as lazy as it is)
            except Exception:
                snap = None
        saved = self.sut
        self.sut = active
        self._c10_other = other
        try:
            vs = handler(op) or []
        finally:
            self.sut = saved
            self._c10_other = None
        if other is not None:
            self.n_twin_ops += 1
        self.stats.transitions.add((name, "twin" if on_twin else "orig", self.sut.src["kind"], op.get("packaging"), op.get("kind"), op.get("part")))
        self.stats.states.add(self.state_digest())
        if vs:
            return vs
        if snap is not None:
            try:
                now = self._twin_actual(other)
            except Exception as e:
                return [Violation("C10", "twin-unreadable", name, self._feats() + ["on_twin" if on_twin else "on_orig"], type(e).__name__, f"{type(e).__name__}: {e}")]
            for n in snap:
                if now.get(n) != snap[n]:
                    return [Violation("C10", "twin-changed", name, self._feats() + ["on_twin" if on_twin else "on_orig", "part:" + n], None, f"the untouched twin changed: {n} no longer is what it was before this operation on the other twin")]
        return []

    def _twin_expected(self, sut):
        """what every part of that twin must be, WITHOUT reading anything through it: the
        live tree for parts the history parsed, the part-store model for the others"""
        exp = {}
        for n in sut.store.names():
            if n.endswith("/") or n == ds.RDF:
                continue
            if n in sut.store.touched:
                exp[n] = ds.canon(n, sut.doc.get_part(n).serialize())
            else:
                exp[n] = ds.canon(n, sut.store.current(n))
        return exp

    def _twin_actual(self, sut):
        """the same, read through the public API (this loads lazily loaded parts)"""
        act = {}
        for n in sut.store.names():
            if n.endswith("/") or n == ds.RDF:
                continue
            if n in sut.store.touched:
                act[n] = ds.canon(n, sut.doc.get_part(n).serialize())
            else:
                act[n] = ds.canon(n, sut.doc.container.get_part(n))
        return act

    def _op_clone_doc(self, op):
        if self.twin is not None:
            return []
        sut = self.sut
        try:
            before = self._twin_expected(sut)  # model-based: the original stays lazy
        except Exception:
            return []
        feats = self._feats()
        fault = op.get("fault")
        if fault:
            self.env.arm(fault)
        res, exc = self._call(lambda: sut.doc.clone, "clone")
        fired = self.env.disarm() if fault else False
        if fired:
            self.n_faults += 1
            self.stats.probe("fault:" + fault["site"] + ":" + fault["errno"])
            feats = feats + ["fault:" + fault["site"]]
            if exc is not None:
                # fail-stop: cloning may fail; a retry must then give a complete clone
                self.stats.probe("fault_survived_by_raise")
                res, exc = self._call(lambda: sut.doc.clone, "clone")
        self._outcome = f"clone_doc:{'exc' if exc else 'ok'}"
        if exc is not None:
            return [Violation("C10", "clone-raises", "clone_doc", feats, type(exc).__name__, f"{type(exc).__name__}: {exc}")]
        self.stats.probe("clone_doc")
        if self.n_edits:
            self.stats.probe("clone_after_unsaved_edit")
        if any(n not in sut.store.over and n not in sut.store.touched for n in sut.store.names()) and sut.src.get("path"):
            self.stats.probe("clone_of_lazily_loaded_document")
        tw = ds.DocSUT(self.scratch)
        self.n_twins += 1
        tw.counter = 1000 * self.n_twins  # (its own range of scratch file names: never the other twin's paths)
        tw.doc = res
        st = ds.PartStore()
        st.mimetype = sut.store.mimetype
        for n in sut.store.names():
            if n.endswith("/"):
                st.base[n] = b""
            elif n in sut.store.touched:
                st.base[n] = sut.doc.get_part(n).serialize()
            else:
                st.base[n] = sut.store.current(n)
        tw.store = st
        tw.src = {"kind": "clone", "path": None, "packaging": "zip"}
        self.twin = tw
        try:
            born = self._twin_actual(tw)
        except Exception as e:
            return [Violation("C10", "twin-unreadable", "clone_doc", feats + ["at_birth"], type(e).__name__, f"{type(e).__name__}: {e}")]
        for n in before:
            if born.get(n) != before[n]:
                return [Violation("C10", "clone-differs-at-birth", "clone_doc", feats + ["part:" + n], None, f"{n} of the clone is not what the original holds")]
        # cloning never modifies the original: parsed parts as before; nothing resurrected or lost
        for n in sut.store.touched:
            if n in before and ds.canon(n, sut.doc.get_part(n).serialize()) != before[n]:
                return [Violation("C10", "clone-modified-original", "clone_doc", feats + ["part:" + n], None, f"{n} of the original changed while cloning")]
        # the set of parts of the clone, as an independent reader of its saved package sees it
        buf = io.BytesIO()
        r2, e2 = self._call(lambda: res.save(buf), "save")
        tw.store.touched |= {"meta.xml", ds.MANIFEST}
        if e2 is not None:
            return [Violation("C10", "twin-unreadable", "clone_doc", feats + ["clone_save"], type(e2).__name__, f"{type(e2).__name__}: {e2}")]
        pkg = xmlref.read_package(buf.getvalue())
        want = {n for n in sut.store.names() if not n.endswith("/")}
        got = set(pkg.parts)
        extra, missing = sorted(got - want - {ds.RDF}), sorted(want - got - {ds.RDF})
        if extra or missing:
            return [Violation("C10", "clone-differs-at-birth", "clone_doc", feats + ["part_list"], None, f"the clone's package has extra parts {extra[:3]} / lacks {missing[:3]} compared with the original in memory")]
        return []

    def _op_twin_package_check(self, op):
        """save the (active) twin to a buffer: the package must hold exactly the parts of
        that twin (nothing brought in from the other twin or from an overwritten source)"""
        sut = self.sut
        try:
            exp = self._expected_for_save()
        except Exception:
            return []
        buf = io.BytesIO()
        res, exc = self._call(lambda: sut.doc.save(buf), "save")
        sut.store.touched |= {"meta.xml", ds.MANIFEST}
        self._outcome = f"twin_package_check:{'exc' if exc else 'ok'}"
        feats = self._feats() + (["on_twin"] if op.get("on") == "twin" else ["on_orig"])
        if exc is not None:
            return [Violation("C10", "twin-unreadable", "twin_package_check", feats, type(exc).__name__, f"{type(exc).__name__}: {exc}")]
        pkg = xmlref.read_package(buf.getvalue())
        e2 = {k: v for k, v in exp.items() if v is not None}
        optional = {k for k, v in exp.items() if v is None}
        for kind, det in ds.compare_package(pkg, e2, optional):
            return [Violation("C10", "twin-package-" + kind, "twin_package_check", feats, None, det)]
        return []

    def _op_twin_save_over_source(self, op):
        """the clone is saved onto the very file the original was (lazily) opened from"""
        if self.twin is None or not self.sut.src.get("path") or self.sut.src["packaging"] != "zip":
            return []
        path = self.sut.src["path"]
        for a in self.artifacts:
            if a.get("path") == path:
                a["dead"] = True
        try:
            exp = self._twin_expected(self.sut)  # model-based: the original keeps whatever laziness it has
        except Exception:
            exp = None
        res, exc = self._call(lambda: self.twin.doc.save(path), "save")
        self._outcome = f"twin_save_over_source:{'exc' if exc else 'ok'}"
        self.twin.store.touched |= {"meta.xml", ds.MANIFEST}
        self.stats.probe("clone_saved_over_source_of_original")
        self.flags.add("source_overwritten_by_clone")
        if exc is None and exp is not None:
            # the untouched original must still answer as before, part by part
            try:
                act = self._twin_actual(self.sut)
            except Exception as e:
                return [Violation("C10", "twin-unreadable", "twin_save_over_source", self._feats() + ["original_after_overwrite"], type(e).__name__, f"{type(e).__name__}: {e}")]
            for n in exp:
                if act.get(n) != exp[n]:
                    return [Violation("C10", "twin-changed", "twin_save_over_source", self._feats() + ["original_after_overwrite", "part:" + n], None,
                                      f"after its clone was saved over the file it was opened from, the original answers differently for {n}")]
        return []

    def _op_clone_part(self, op):
        from odfdo import Element

        doc, st = self.sut.doc, self.sut.store
        name = ds.SHORT[op["part"]]
        try:
            part = doc.get_part(op["part"])
            if op["part"] == "meta" and op.get("n", 0) % 2:
                part.set_generator(f"user generator {op['n']}")  # (state a Meta part keeps outside its tree: "the user chose a generator")
                self.n_edits += 1
            a0 = part.serialize()
            st.touched.add(name)
            b = part.clone
        except Exception as e:
            self.stats.probe("clone_part_raised")
            return []
        self._outcome = "clone_part"
        self.stats.probe("clone_part")
        feats = self._feats() + ["part:" + op["part"]]
        if part.serialize() != a0:
            return [Violation("C10", "clone-modified-original", "clone_part", feats, None, "XmlPart.clone changed the original part")]
        try:
            b0 = b.serialize()
        except Exception as e:
            return [Violation("C10", "twin-unreadable", "clone_part", feats + ["at_birth"], type(e).__name__, str(e))]
        if xmlref.c14n(b0) != xmlref.c14n(a0):
            return [Violation("C10", "clone-differs-at-birth", "clone_part", feats, None, f"serialisation of the XmlPart clone differs from the original ({len(b0)} vs {len(a0)} bytes)")]
        # indistinguishable when taken: the same call on both gives the same answer
        if op["part"] == "meta":
            try:
                part.set_generator_default()
                b.set_generator_default()
                ga, gb = part.get_generator(), b.get_generator()
            except Exception as e:
                return [Violation("C10", "twin-unreadable", "clone_part", feats + ["same_call_on_both"], type(e).__name__, str(e))]
            if ga != gb:
                return [Violation("C10", "clone-differs-at-birth", "clone_part", feats + ["same_call_on_both"], None,
                                  f"set_generator_default() then get_generator(): the original answers {ga!r}, its clone {gb!r}")]
            # ... also a call that has to CREATE an element that is not there yet
            try:
                key = f"both{op['n']}"
                part.set_user_defined_metadata(key, f"v{op['n']}")
                b.set_user_defined_metadata(key, f"v{op['n']}")
                ua, ub = part.get_user_defined_metadata().get(key), b.get_user_defined_metadata().get(key)
                sa, sb = key.encode() in part.serialize(), key.encode() in b.serialize()
            except Exception as e:
                return [Violation("C10", "twin-unreadable", "clone_part", feats + ["same_call_on_both"], type(e).__name__, str(e))]
            if (ua, sa) != (ub, sb):
                return [Violation("C10", "clone-differs-at-birth", "clone_part", feats + ["same_call_on_both"], None,
                                  f"set_user_defined_metadata({key!r}) on both: the original answers {ua!r} (in its XML: {sa}), the clone {ub!r} (in its XML: {sb})")]
            a0 = part.serialize()
        # edit the clone: the original must not notice; then the reverse
        try:
            b.root.append(Element.from_tag(f'<text:p xmlns:text="urn:oasis:names:tc:opendocument:xmlns:text:1.0">clone edit {op["n"]}</text:p>'))
        except Exception:
            return []
        if part.serialize() != a0:
            return [Violation("C10", "twin-changed", "clone_part", feats + ["mutated_clone"], None, "editing the XmlPart clone changed the original")]
        b1 = b.serialize()
        try:
            part.root.append(Element.from_tag(f'<text:p xmlns:text="urn:oasis:names:tc:opendocument:xmlns:text:1.0">orig edit {op["n"]}</text:p>'))
        except Exception:
            return []
        self.n_edits += 1
        if b.serialize() != b1:
            return [Violation("C10", "twin-changed", "clone_part", feats + ["mutated_original"], None, "editing the original changed the XmlPart clone")]
        return []

    def _op_clone_container(self, op):
        doc, st = self.sut.doc, self.sut.store
        c = doc.container
        res, exc = self._call(lambda: c.clone, "clone")
        self._outcome = f"clone_container:{'exc' if exc else 'ok'}"
        feats = self._feats()
        if exc is not None:
            return [Violation("C10", "clone-raises", "clone_container", feats, type(exc).__name__, str(exc))]
        self.stats.probe("clone_container")
        names = [n for n in st.names() if not n.endswith("/") and n not in st.touched and n != ds.RDF]
        for n in names:
            try:
                x, y = c.get_part(n), res.get_part(n)
            except Exception as e:
                return [Violation("C10", "twin-unreadable", "clone_container", feats + ["at_birth"], type(e).__name__, f"{n}: {e}")]
            if x != y:
                return [Violation("C10", "clone-differs-at-birth", "clone_container", feats, None, f"{n} differs in the container clone")]
        # (get_parts() is not compared: for a container opened from a zip path it lists the archive on disk, not the parts in
        # memory, on the unchanged tree - a clone, which has no path, lists differently as soon as a part was added or deleted)
        # independence both ways
        res.set_part("Extra/only-in-clone.bin", b"x")
        if names:
            res.set_part(names[0], b"changed in clone")
            if c.get_part(names[0]) == b"changed in clone":
                return [Violation("C10", "twin-changed", "clone_container", feats + ["mutated_clone"], None, f"set_part on the clone changed {names[0]} in the original")]
        try:
            c.get_part("Extra/only-in-clone.bin")
            return [Violation("C10", "twin-changed", "clone_container", feats + ["mutated_clone"], None, "a part added to the clone appeared in the original")]
        except Exception:
            pass
        return []

    def _after_open(self, op):
        """baseline of the freshly opened source (C04 false-alarm guard): what
        the independent inspector already objects to in the source package"""
        self.baseline_c04 = set()
        pk = self.sut.src_pk
        if self.prop == "C04" and pk is not None:
            for rule, det in ds.inspect_odf_zip(pk, self.sut.store.mimetype):
                if rule in ("mimetype-not-first", "mimetype-compressed", "duplicate-entry", "mimetype-missing"):
                    continue  # zip-layer shape of the source: the save must normalise it
                self.baseline_c04.add((rule, det))
            if self.baseline_c04:
                self.stats.probe("c04_baseline_nonempty")
        return []

    # ---- individual ops ------------------------------------------------------
    def _call(self, fn, what):
        """run real code; returns (result, exc)"""
        try:
            return fn(), None
        except Exception as e:  # exception from the code under test
            return None, e

    def _op_touch(self, op):
        doc, st = self.sut.doc, self.sut.store
        name = ds.SHORT[op["part"]]
        was = name in st.touched
        fault = op.get("fault")
        if fault:
            self.env.arm(fault)
        res, exc = self._call(lambda: doc.get_part(op["part"]).root, "touch")
        fired = self.env.disarm() if fault else False
        if fired:
            self.n_faults += 1
            self.stats.probe("fault:" + fault["site"] + ":" + fault["errno"])
            if exc is not None:
                # fail-stop: the load may fail; a retry without fault must then succeed and
                # give the stored part (nothing half-loaded may be kept)
                self.stats.probe("fault_survived_by_raise")
                res, exc = self._call(lambda: doc.get_part(op["part"]).root, "touch")
                if exc is not None and self.prop == "C03":
                    self._outcome = "touch:retry-exc"
                    return [Violation("C03", "retry-after-failed-load-raises", "touch", self._feats() + ["part:" + op["part"], "fault:" + fault["site"]], type(exc).__name__, f"{type(exc).__name__}: {exc}")]
            else:
                self.stats.probe("fault_swallowed_load_returned")
        self._outcome = f"touch:{'exc' if exc else 'ok'}"
        if exc is not None:
            return [Violation(self.prop, "raises", "touch", self._feats(), type(exc).__name__, f"{type(exc).__name__}: {exc}")] if self.prop == "C03" else []
        vs = []
        if not was:
            # first parse: the live tree must be what the store says the part is
            want = ds.canon(name, st.current(name))
            got = ds.canon(name, doc.get_part(op["part"]).serialize())
            if got != want and self.prop == "C03":
                vs.append(Violation("C03", "parsed-part-differs-from-stored", "touch", self._feats() + ["part:" + op["part"]], None,
                                    f"{name}: the part parsed after the last set_part/open is not the stored bytes (len {got[2]} vs {want[2]})"))
            if name not in st.over and self.sut.src["path"]:
                self.stats.probe("lazy_part_loaded_by_touch")
        st.touched.add(name)
        return vs

    def _op_edit(self, op):
        from odfdo import Cell, DrawPage, Frame, Header, List, Paragraph, Row, Style, Table

        doc, st = self.sut.doc, self.sut.store
        kind = op["kind"]
        n = op["n"]
        dtype = self._doc_type()

        def do():
            if kind == "foreign_named_range":
                # a named range as another producer spells it (quoted sheet name, absolute
                # references, a one-cell range written A1:.A1, base cell elsewhere). It is put
                # in at the XML level (lxml + set_part), as if read from a file: no odfdo object
                # has seen the element before the reading calls do
                if dtype != "spreadsheet":
                    return "content.xml"
                root = etree.fromstring(doc.content.serialize())
                sheet = root.find(".//" + xmlref.q("office:spreadsheet"))
                if sheet is None:
                    return "content.xml"
                cont = sheet.find(xmlref.q("table:named-expressions"))
                if cont is None:
                    cont = etree.SubElement(sheet, xmlref.q("table:named-expressions"))
                tabs = sheet.findall(xmlref.q("table:table"))
                tname = tabs[0].get(xmlref.q("table:name")) if tabs else "Sheet1"
                qn = "'" + tname + "'" if n % 2 else tname
                nr = etree.SubElement(cont, xmlref.q("table:named-range"))
                nr.set(xmlref.q("table:name"), f"fnr{n}")
                nr.set(xmlref.q("table:base-cell-address"), f"${qn}.$C$3")
                nr.set(xmlref.q("table:cell-range-address"), f"${qn}.$A$1:.$A$1")
                data = etree.tostring(root, xml_declaration=True, encoding="UTF-8")
                doc.set_part("content.xml", data)
                st.set_part("content.xml", data)
                return None
            if kind == "toc_unfilled":
                # a table of contents that was never filled (its index body has no entry yet)
                if dtype != "text":
                    return "content.xml"
                from odfdo import TOC as _TOC
                doc.body.append(_TOC(title=f"Contents {n}"))
                return "content.xml"
            if kind == "tracked_xmlid":
                # tracked changes as ODF 1.2 writes them: the changed region identified by xml:id alone (text:id is
                # deprecated); put in at the XML level
                if dtype != "text":
                    return "content.xml"
                root = etree.fromstring(doc.content.serialize())
                text = root.find(".//" + xmlref.q("office:text"))
                if text is None or text.find(xmlref.q("text:tracked-changes")) is not None:
                    return "content.xml"
                tc = etree.fromstring(
                    '<text:tracked-changes xmlns:text="urn:oasis:names:tc:opendocument:xmlns:text:1.0" xmlns:office="urn:oasis:names:tc:opendocument:xmlns:office:1.0" '
                    'xmlns:dc="http://purl.org/dc/elements/1.1/"><text:changed-region xml:id="ct%d"><text:insertion><office:change-info><dc:creator>sim</dc:creator>'
                    '<dc:date>2024-01-01T00:00:00</dc:date></office:change-info></text:insertion></text:changed-region></text:tracked-changes>' % n)
                text.insert(0, tc)
                p_ = etree.SubElement(text, xmlref.q("text:p"))
                p_.text = "kept "
                cs = etree.SubElement(p_, xmlref.q("text:change-start")); cs.set(xmlref.q("text:change-id"), "ct%d" % n); cs.tail = "inserted words"
                ce = etree.SubElement(p_, xmlref.q("text:change-end")); ce.set(xmlref.q("text:change-id"), "ct%d" % n); ce.tail = " kept too"
                data = etree.tostring(root, xml_declaration=True, encoding="UTF-8")
                doc.set_part("content.xml", data)
                st.set_part("content.xml", data)
                return None
            if kind == "meta_sparse":
                # a meta.xml with fewer of the optional elements (no meta:document-statistic, no generator), as small
                # producers write it; put in at the XML level
                root = etree.fromstring(doc.get_part("meta.xml").serialize())
                for tag in ("meta:document-statistic", "meta:generator", "meta:editing-cycles")[: 1 + n % 3]:
                    for e in list(root.iter(xmlref.q(tag))):
                        e.getparent().remove(e)
                data = etree.tostring(root, xml_declaration=True, encoding="UTF-8")
                doc.set_part("meta.xml", data)
                st.set_part("meta.xml", data)
                return None
            if kind == "xml_prolog":
                # parts as another producer writes them: a comment before, a processing instruction after the
                # root element of content.xml / styles.xml (put in at the XML level, as if read from a file)
                for pn in ("content.xml", "styles.xml")[: 1 + n % 2]:
                    root = etree.fromstring(doc.get_part(pn).serialize())
                    if root.getprevious() is None:
                        root.addprevious(etree.Comment(f" written by sim {n} "))
                        root.addnext(etree.ProcessingInstruction("sim-trailer", f"n={n}"))
                    data = etree.tostring(root.getroottree(), xml_declaration=True, encoding="UTF-8")
                    doc.set_part(pn, data)
                    st.set_part(pn, data)
                return None
            if kind == "numlist":
                # a numbered list whose numbering comes from styles of this very document
                from odfdo import Element as _E, ListItem as _LI
                doc.insert_style(_E.from_tag('<text:list-style style:name="L1"><text:list-level-style-number text:level="1" style:num-format="1" style:num-suffix="."/></text:list-style>'), automatic=True)
                doc.insert_style(_E.from_tag('<style:style style:name="P1" style:family="paragraph" style:list-style-name="L1"/>'), automatic=True)
                lst = List()
                for word in ("apples", "pears", f"plums {n}"):
                    item = _LI()
                    item.append(Paragraph(word, style="P1"))
                    lst.append(item)
                doc.body.append(lst)
                return "content.xml"
            if kind in ("para", "heading", "list", "table", "image", "delete_last"):
                body = doc.body
                if kind == "delete_last":
                    ch = body.children
                    if ch:
                        body.delete(ch[-1])
                    return "content.xml"
                if dtype == "text":
                    if kind == "para":
                        body.append(Paragraph(f"paragraph {n}  with  spaces"))
                    elif kind == "heading":
                        body.append(Header(1 + n % 3, f"Heading {n}"))
                    elif kind == "list":
                        body.append(List([f"item {n}", f"item {n}b"]))
                    elif kind == "table":
                        # (often with empty trailing rows / columns, as tables drawn by hand have)
                        t = Table(f"Table{n}", width=2 + n % 3, height=2 + (n // 3) % 3)
                        t.set_value((0, 0), n)
                        t.set_value((1, 1), f"v{n}")
                        if self.prop == "C15" and n % 2:
                            t = self._rle_table(n, f"Table{n}")
                        body.append(t)
                    else:
                        uri = doc.add_file(IMG1)
                        p = Paragraph("")
                        p.append(Frame.image_frame(uri, size=("2cm", "2cm"), anchor_type="as-char"))
                        body.append(p)
                        return "content.xml+image"
                elif dtype == "spreadsheet":
                    t = Table(f"Sheet{n}", width=2, height=2)
                    t.set_value((0, 0), n)
                    t.set_value("B2", f"v{n}")
                    if self.prop == "C15" and n % 2:
                        t = self._rle_table(n, f"Sheet{n}")
                    body.append(t)
                else:
                    body.append(DrawPage(f"page{n}", name=f"Page {n}"))
                return "content.xml"
            if kind == "subobject":
                part = doc.get_part(op["name"])
                part.root.set_attribute("office:version", "1.%d" % (2 + n % 2))
                # (remembered by the harness itself: the expectation must not depend on the document handing out the same part object again)
                self.sub_edits = dict(getattr(self, "sub_edits", {}), **{op["name"]: "1.%d" % (2 + n % 2)})
                part.root.append(__import__("odfdo").Element.from_tag("<office:scripts/>")) if n % 3 == 0 else None
                return op["name"]
            if kind == "meta_title":
                doc.meta.title = f"Title {n}"
                return "meta.xml"
            if kind == "meta_user":
                doc.meta.set_user_defined_metadata(f"key{n % 4}", n if n % 2 else f"text {n}")
                return "meta.xml"
            if kind == "meta_keyword":
                doc.meta.keyword = f"kw{n}"
                return "meta.xml"
            if kind == "meta_generator":
                # the application name chosen by the user (the property or the method: two doors), kept at save
                if n % 2:
                    doc.meta.generator = f"SimApp {n}"
                else:
                    doc.meta.set_generator(f"SimApp {n}")
                self.user_generator = f"SimApp {n}"
                return "meta.xml"
            if kind == "style":
                doc.insert_style(Style("paragraph", name=f"simstyle{n % 5}", area="text", bold=True))
                return "styles.xml"
            raise ValueError(kind)

        res, exc = self._call(do, "edit")
        self._outcome = f"edit:{kind}:{'exc' if exc else 'ok'}"
        if exc is not None:
            self.stats.probe("edit_raised")
            return []
        self.n_edits += 1
        # the edit made through the API must be in the part a reader will get
        marker = {"para": f"paragraph {n}  with", "heading": f"Heading {n}", "list": f"item {n}b", "meta_title": f"Title {n}", "meta_keyword": f"kw{n}"}.get(kind)
        if marker and dtype == "text" or (marker and kind.startswith("meta")):
            part = "meta" if kind.startswith("meta") else "content"
            try:
                data = doc.get_part(part).serialize()
            except Exception:
                data = b""
            probe = marker.replace("  ", " ").split(" with")[0].encode()
            if probe not in data and self.prop == "C03":
                return [Violation("C03", "edit-not-in-part", "edit", self._feats() + ["kind:" + kind], None,
                                  f"the {kind} just added through the API is not in the {part} part (edit went to a stale tree)")]
        if res == "content.xml+image":
            self._model_add_file_result("Pictures/", IMG1, None)
            st.touched.add("content.xml")
            if "added_image_frame" in self.flags:
                self.flags.add("same_picture_in_two_frames")
            self.flags.add("added_image_frame")
        elif res is not None:
            st.touched.add(res)
        return []

    def _model_add_file_result(self, uri_or_prefix, path, uri):
        """model side of add_file(path) for the image used by edits"""
        st = self.sut.store
        with open(path, "rb") as f:
            data = f.read()
        name = "Pictures/" + hashlib.shake_256(data).hexdigest(16) + os.path.splitext(path)[1].lower()
        st.over[name] = data
        st.touched.add(ds.MANIFEST)
        self.flags.add("added_file")

    def _op_rich_para(self, op):
        from odfdo import Element

        doc, st = self.sut.doc, self.sut.store
        if self._doc_type() != "text":
            return []
        res, exc = self._call(lambda: doc.body.append(Element.from_tag(op["xml"])), "rich_para")
        self._outcome = f"rich_para:{'exc' if exc else 'ok'}"
        if exc is None:
            st.touched.add("content.xml")
            self.n_edits += 1
            self.flags.add("rich_para")
        return []

    # ---- C11: the same state saved under several configurations -------------------
    def _memory(self, sut=None):
        """the in-memory document through the public API: serialisation of the
        five standard XML parts (this parses them) + bytes of the other parts"""
        sut = sut or self.sut
        doc, st = sut.doc, sut.store
        mem = {}
        for n in ds.STD_XML:
            if n in st.names():
                mem[n] = doc.get_part(n).serialize()
                st.touched.add(n)
        for n in st.names():
            if n not in mem and not n.endswith("/") and n != ds.RDF:
                if n in st.touched:
                    mem[n] = doc.get_part(n).serialize()  # a parsed sub-document part: the live tree counts
                else:
                    mem[n] = doc.container.get_part(n)
        return mem

    def _memory_expected(self):
        """what the in-memory document is, without reading anything through it: the live
        tree of the parts the history parsed, the part-store model for the others"""
        doc, st = self.sut.doc, self.sut.store
        mem = {}
        for n in st.names():
            if n.endswith("/") or n == ds.RDF:
                continue
            if n in st.touched:
                mem[n] = doc.get_part(n).serialize()
            else:
                mem[n] = st.current(n)
        return mem

    @staticmethod
    def _mem_diff(a, b):
        for n in a:
            if n not in b:
                return f"{n} disappeared from memory"
            x, y = a[n], b[n]
            if n == "meta.xml":
                x, y = ds.canon(n, x), ds.canon(n, y)  # generator stamp apart
            if x != y:
                if n in ds.STD_XML and n != "meta.xml":
                    cx, cy = xmlref.c14n(x), xmlref.c14n(y)
                    if cx == cy:
                        continue  # same infoset (only the XML declaration / quoting differs)
                    tx, ty = xmlref.paragraphs_text(x), xmlref.paragraphs_text(y)
                    kind = "readable text changed" if tx != ty else "white space / layout changed"
                    return f"{n}: in-memory serialisation changed ({kind}, {len(x)} -> {len(y)} bytes)"
                return f"{n}: changed in memory"
        return None

    def _variant_parts(self, art):
        """{part name: root element} of the XML parts of an artefact"""
        if art["packaging"] == "xml":
            data = art.get("data")
            if data is None:
                with open(art["path"], "rb") as f:
                    data = f.read()
            return {"flat": etree.fromstring(data)}
        pkg = self._read_art(art)
        return {n: etree.fromstring(pkg.parts[n]) for n in ("content.xml", "styles.xml", "meta.xml", "settings.xml") if n in pkg.parts}

    def _op_save_set(self, op):
        doc, st = self.sut.doc, self.sut.store
        vs = []
        try:
            m0 = self._memory_expected()  # model-based for parts not parsed yet: nothing is loaded before the first save
        except Exception as e:
            self._outcome = "save_set:memory-unreadable"
            return []
        unread = [n for n in st.names() if n not in st.over and n not in st.touched and n != "mimetype"]
        if self.sut.src.get("path") and unread:
            self.stats.probe("unread_parts_fetched_at_save")
        base_feats = self._feats()
        fault = op.get("fault")
        flat_first = None
        if op.get("xml_first"):
            fb = io.BytesIO()
            res, exc = self._call(lambda: doc.save(fb, packaging="xml", pretty=False), "save")
            if exc is not None:
                self._outcome = "save_set:xml-first-raises"
                return [Violation("C11", "save-raises", "save_set", base_feats + ["pk:xml", "pretty:False", "first_save"], type(exc).__name__, f"{type(exc).__name__}: {exc}")]
            flat_first = fb.getvalue()
            self.stats.probe("flat_export_as_first_save")
        # reference: plain zip (this is also where parts not read yet are loaded)
        ref_buf = io.BytesIO()
        armed0 = bool(fault) and fault.get("at") == -1
        if armed0:
            self.env.arm(fault)
        res, exc = self._call(lambda: doc.save(ref_buf, pretty=False), "save")
        if armed0:
            if self.env.disarm():
                self.n_faults += 1
                self.stats.probe("fault:" + fault["site"] + ":" + fault["errno"])
                base_feats = base_feats + ["fault_on_first_save:" + fault["site"]]
                if exc is not None:
                    # fail-stop: memory as it was, and the retry is a correct save
                    self.stats.probe("fault_survived_by_raise")
                    d = self._mem_diff(m0, self._memory())
                    if d:
                        return [Violation("C11", "memory-changed-by-save", "save_set", base_feats + ["save_raised"], None, d)]
                    ref_buf = io.BytesIO()
                    res, exc = self._call(lambda: doc.save(ref_buf, pretty=False), "save")
                else:
                    self.stats.probe("fault_swallowed_save_returned")
        if exc is not None:
            self._outcome = "save_set:ref-raises"
            return [Violation("C11", "save-raises", "save_set", base_feats + ["pk:zip", "pretty:False"], type(exc).__name__, str(exc))]
        self.n_saves += 1
        ref = xmlref.read_package(ref_buf.getvalue())
        d = self._mem_diff(m0, self._memory())
        if d:
            self._outcome = "save_set:memory-changed"
            return [Violation("C11", "memory-changed-by-save", "save_set", base_feats + ["pk:zip", "pretty:False"], None, d)]
        ref_roots = {n: etree.fromstring(ref.parts[n]) for n in ("content.xml", "styles.xml", "meta.xml", "settings.xml") if n in ref.parts}
        self._ref_names = set(ref.parts)
        self.artifacts.append({"packaging": "zip", "data": ref_buf.getvalue(), "expected": {}, "mimetype": st.mimetype, "feats": base_feats})
        out = []
        if flat_first is not None:
            try:
                v0 = self._compare_variant(ref_roots, {"flat": etree.fromstring(flat_first)}, "xml", base_feats + ["pk:xml", "pretty:False", "first_save"])
            except Exception as e:
                v0 = Violation("C11", "variant-unreadable", "save_set", base_feats + ["pk:xml", "first_save"], type(e).__name__, str(e))
            if v0:
                self._outcome = "save_set:" + v0.oracle
                return [v0]
        shared_buf = simenv.FaultyBytesIO() if op.get("reuse_buffer") else None
        for i, v in enumerate(op["variants"]):
            pk, pr = v["packaging"], v["pretty"]
            feats = base_feats + ["pk:" + pk, "pretty:" + str(pr)]
            if v["target"] == "bytesio" and pk == "zip" and shared_buf is not None:
                target = shared_buf
                if shared_buf.tell():
                    self.stats.probe("env:bytesio-target-already-holds-data")
            elif v["target"] == "bytesio" and pk != "folder":
                target = simenv.FaultyBytesIO()
            elif v["target"] == "inplace":
                if self.sut.src["kind"] != "folder" or not self.sut.src.get("path"):
                    continue
                target = self.sut.src["path"]
                feats = feats + ["target:inplace"]
            else:
                target = self.sut.newpath("var")
            kw = {"packaging": pk}
            if pr is not None:
                kw["pretty"] = pr
            if v.get("backup"):
                kw["backup"] = True
                feats = feats + ["backup"]
            armed = bool(fault) and fault.get("at") == i
            if armed:
                self.env.arm(fault)
            res, exc = self._call(lambda: doc.save(target, **kw), "save")
            fired = self.env.disarm() if armed else False
            if fired:
                self.n_faults += 1
                self.stats.probe("fault:" + fault["site"] + ":" + fault["errno"])
                feats = feats + ["fault:" + fault["site"]]
            # (ii)/(iv) memory as it was, whether the save returned or raised
            d = self._mem_diff(m0, self._memory())
            if d:
                out.append(Violation("C11", "memory-changed-by-save", "save_set", feats + (["save_raised"] if exc is not None else []), None, d))
                break
            if exc is not None:
                if fired:
                    self.stats.probe("fault_survived_by_raise")
                    continue
                out.append(Violation("C11", "save-raises", "save_set", feats, type(exc).__name__, f"{type(exc).__name__}: {exc}"))
                break
            self.n_saves += 1
            self.stats.probe(f"variant:{pk}:{pr}")
            art = {"packaging": pk, "expected": {}, "mimetype": st.mimetype, "feats": feats}
            if isinstance(target, io.BytesIO):
                art["data"] = target.getvalue()
            else:
                art["given"] = target
                art["path"] = self._resolved(target, pk)
            try:
                parts = self._variant_parts(art)
            except Exception as e:
                out.append(Violation("C11", "variant-unreadable", "save_set", feats, type(e).__name__, str(e)))
                break
            v1 = self._compare_variant(ref_roots, parts, pk, feats)
            if v1:
                out.append(v1)
                break
            if pk in ("zip", "folder"):
                # same files as the plain zip (a packaging changes the layout only)
                try:
                    names = {n for n in self._read_art(art).parts if not n.endswith("/")}
                except Exception as e:
                    out.append(Violation("C11", "variant-unreadable", "save_set", feats, type(e).__name__, str(e)))
                    break
                want_names = {n for n in ref.parts if not n.endswith("/")}
                if names != want_names:
                    out.append(Violation("C11", "variant-file-list-differs", "save_set", feats, None,
                                         f"only in this variant: {sorted(names - want_names)[:3]}; only in the plain zip: {sorted(want_names - names)[:3]}"))
                    break
        if out:
            self._outcome = "save_set:" + out[0].oracle
            return out
        # (iii) a further plain save writes the reference content again
        buf2 = io.BytesIO()
        res, exc = self._call(lambda: doc.save(buf2, pretty=False), "save")
        if exc is not None:
            return [Violation("C11", "save-raises", "save_set", base_feats + ["pk:zip", "pretty:False", "after_variants"], type(exc).__name__, str(exc))]
        again = xmlref.read_package(buf2.getvalue())
        for n in sorted(again.parts):
            if n not in ref.parts:
                return [Violation("C11", "second-plain-save-differs", "save_set", base_feats + ["after_variants"], None, f"{n} is in the last plain save but was not in the first")]
        for n in sorted(ref.parts):
            if n not in again.parts:
                return [Violation("C11", "second-plain-save-differs", "save_set", base_feats + ["after_variants"], None, f"{n} missing")]
            if ds.canon(n, again.parts[n]) != ds.canon(n, ref.parts[n]):
                return [Violation("C11", "second-plain-save-differs", "save_set", base_feats + ["after_variants", "part:" + n], None, f"{n} differs from the first plain save")]
        self._outcome = "save_set:ok"
        return []

    def _compare_variant(self, ref_roots, parts, pk, feats):
        SKIP = (xmlref.q("office:binary-data"),)
        if pk == "xml":
            flat = parts["flat"]
            want = []
            for n in ("meta.xml", "settings.xml", "styles.xml", "content.xml"):
                if n in ref_roots:
                    want += xmlref.paragraphs_text(ref_roots[n])
            got = xmlref.paragraphs_text(flat)
            # by design the flat export replaces every draw:image by an embedded
            # copy: an (empty) text:p that LibreOffice puts inside draw:image is not kept
            # (only in content.xml: images of styles.xml are left alone by the export)
            n_in_image = sum(1 for n in ref_roots if n == "content.xml" for p in ref_roots[n].iter(xmlref.X_P) if p.getparent() is not None and p.getparent().tag == xmlref.q("draw:image"))
            if n_in_image:
                want = []
                for n in ("meta.xml", "settings.xml", "styles.xml", "content.xml"):
                    if n in ref_roots:
                        want += [(el.tag.rsplit("}", 1)[1], xmlref.odf_text(el)) for el in ref_roots[n].iter(xmlref.X_P, xmlref.X_H)
                                 if not (n == "content.xml" and el.getparent() is not None and el.getparent().tag == xmlref.q("draw:image"))]
            if got != want:
                i = next((k for k, (a, b) in enumerate(zip(got, want)) if a != b), min(len(got), len(want)))
                extra = []
                if len(got) == len(want):
                    gels = list(flat.iter(xmlref.X_P, xmlref.X_H))
                    wels = []
                    for n in ("meta.xml", "settings.xml", "styles.xml", "content.xml"):
                        if n in ref_roots:
                            wels += [el for el in ref_roots[n].iter(xmlref.X_P, xmlref.X_H)
                                     if not (n == "content.xml" and el.getparent() is not None and el.getparent().tag == xmlref.q("draw:image"))]
                    if len(gels) == len(wels):
                        extra = self._leak_site(gels[i], wels[i], None)
                return Violation("C11", "text-changed", "save_set", feats + extra, None, f"paragraph #{i}: flat xml {got[i] if i < len(got) else None!r} vs plain zip {want[i] if i < len(want) else None!r}")
            # every image stays where it was (embedded or not): same number of draw:image per part
            IMG_ = xmlref.q("draw:image")
            n_ref = sum(1 for n in ("styles.xml", "content.xml") if n in ref_roots for _ in ref_roots[n].iter(IMG_))
            n_flat = sum(1 for _ in flat.iter(IMG_))
            if n_ref != n_flat:
                return Violation("C11", "structure-changed", "save_set", feats + ["images"], None, f"the parts hold {n_ref} draw:image elements, the flat document {n_flat}")
            # every image of content.xml whose file is in the package is embedded (office:binary-data), wherever that file lives
            names = getattr(self, "_ref_names", None)
            if names is not None and "content.xml" in ref_roots:
                HREF = "{http://www.w3.org/1999/xlink}href"
                want_emb = 0
                for im in ref_roots["content.xml"].iter(IMG_):
                    h = (im.get(HREF) or "")
                    h = h[2:] if h.startswith("./") else h
                    if h and h in names:
                        want_emb += 1
                got_emb = sum(1 for _ in flat.iter(xmlref.q("office:binary-data")))
                n_style_emb = sum(1 for n in ("styles.xml",) if n in ref_roots for _ in ref_roots[n].iter(xmlref.q("office:binary-data")))
                if got_emb - n_style_emb < want_emb:
                    return Violation("C11", "structure-changed", "save_set", feats + ["images_not_embedded"], None,
                                     f"{want_emb} images of content.xml have their file in the package, the flat document embeds {got_emb - n_style_emb}")
            wl = []
            for n in ("meta.xml", "settings.xml", "styles.xml", "content.xml"):
                if n in ref_roots:
                    wl += xmlref.significant_text(ref_roots[n])
            gl = [t for t in xmlref.significant_text(flat) if t[0] != xmlref.q("office:binary-data")]
            if sorted(gl) != sorted(wl):
                return Violation("C11", "leaf-text-changed", "save_set", feats, None, "character data of leaf elements differs between flat xml and plain zip")
            # element structure / attribute values: the flat document holds exactly the
            # children of the four part roots (draw:image subtrees of content.xml apart:
            # they are replaced by embedded copies, by design)
            IMG = xmlref.q("draw:image")

            def bag(root, skip_images):
                out = {}

                def walk(e):
                    for c in e:
                        if not isinstance(c.tag, str):
                            continue
                        if skip_images and c.tag == IMG:
                            continue
                        k = (c.tag, tuple(sorted(c.attrib.items())))
                        out[k] = out.get(k, 0) + 1
                        walk(c)

                walk(root)
                return out

            want_bag = {}
            for n in ("meta.xml", "settings.xml", "styles.xml", "content.xml"):
                if n in ref_roots:
                    for k, c in bag(ref_roots[n], n == "content.xml").items():
                        want_bag[k] = want_bag.get(k, 0) + c
            # images of styles.xml stay as they are; those of content.xml are skipped on both sides
            got_bag = bag(flat, False)
            for k in [k for k in got_bag if k[0] in (IMG, xmlref.q("office:binary-data"))]:
                pass
            # remove from the flat bag the embedded images (draw:image with only a mime-type + binary-data)
            emb = [k for k in got_bag if k[0] == xmlref.q("office:binary-data")]
            n_emb = sum(got_bag[k] for k in emb)
            for k in emb:
                del got_bag[k]
            if n_emb:
                left = n_emb
                for k in sorted([k for k in got_bag if k[0] == IMG and set(a for a, _ in k[1]) <= {xmlref.q("draw:mime-type")}], key=repr):
                    take = min(left, got_bag[k])
                    got_bag[k] -= take
                    left -= take
                    if not got_bag[k]:
                        del got_bag[k]
            # content images not embeddable (no part) stay as draw:image: tolerate images on the flat side
            extra = {k: c for k, c in got_bag.items() if want_bag.get(k, 0) != c and k[0] != IMG}
            missing = {k: c for k, c in want_bag.items() if got_bag.get(k, 0) != c}
            if extra or missing:
                k = sorted(list(extra) + list(missing), key=repr)[0]
                return Violation("C11", "structure-changed", "save_set", feats, None,
                                 f"flat xml does not hold exactly the elements of the parts: e.g. {k[0].rsplit('}', 1)[1]} {dict(k[1])!r}: parts {want_bag.get(k, 0)} flat {got_bag.get(k, 0)}"[:400])
            return None
        for n, rroot in ref_roots.items():
            if n not in parts:
                return Violation("C11", "part-missing", "save_set", feats, None, n)
            got, want = xmlref.paragraphs_text(parts[n]), xmlref.paragraphs_text(rroot)
            if got != want:
                i = next((k for k, (a, b) in enumerate(zip(got, want)) if a != b), min(len(got), len(want)))
                pair = self._leak_site(parts[n], rroot, i)
                return Violation("C11", "text-changed", "save_set", feats + ["part:" + n] + pair, None, f"{n} paragraph #{i}: {got[i] if i < len(got) else None!r} vs plain {want[i] if i < len(want) else None!r}")
            if xmlref.skeleton(parts[n]) != xmlref.skeleton(rroot):
                return Violation("C11", "structure-changed", "save_set", feats + ["part:" + n], None, f"{n}: element structure / attribute values differ from the plain save")
            if xmlref.significant_text(parts[n]) != xmlref.significant_text(rroot) and n != "meta.xml":
                return Violation("C11", "leaf-text-changed", "save_set", feats + ["part:" + n], None, f"{n}: character data of a leaf element differs from the plain save")
        return None

    @staticmethod
    def _leak_site(got_root, want_root, i):
        """classify what differs in paragraph #i between a pretty variant and the
        plain save: 'only_inline_tail_indent' when every difference is a
        '\\n + spaces' tail given to an element that had no tail (pretty_indent's
        treatment of inline elements that are not text containers), plus the
        (parent>child) pairs where it happened"""
        import re as _re

        feats = []
        try:
            if i is None:
                gp, wp = got_root, want_root
            else:
                gp = list(got_root.iter(xmlref.X_P, xmlref.X_H))[i]
                wp = list(want_root.iter(xmlref.X_P, xmlref.X_H))[i]
            only_indent = True
            pairs = set()
            def walk(e):
                # (the flat export replaces draw:image subtrees: not compared)
                yield e
                if e.tag != xmlref.q("draw:image"):
                    for c in e:
                        if isinstance(c.tag, str):
                            yield from walk(c)

            for g, w in zip(walk(gp), walk(wp)):
                if g.tag != w.tag:
                    only_indent = False
                    break
                if g is not gp and (g.tail or "") != (w.tail or ""):
                    if not w.tail and _re.fullmatch(r"\n *", g.tail or ""):
                        par = g.getparent()
                        pairs.add("leak:" + par.tag.rsplit("}", 1)[1] + ">" + g.tag.rsplit("}", 1)[1])
                    else:
                        only_indent = False
                if (g.text or "") != (w.text or ""):
                    if not ((w.text or "") == "" and _re.fullmatch(r"\n *", g.text or "") and len(g)) and not ((g.text or "").startswith(w.text or "") and _re.fullmatch(r"\n *", (g.text or "")[len(w.text or ""):]) and len(g) and not g.tag.startswith(xmlref._TEXT_NS)):
                        only_indent = False
            if only_indent and pairs:
                feats.append("only_inline_tail_indent")
            feats += sorted(pairs)[:4]
        except Exception:
            pass
        return feats

    def _op_set_part(self, op):
        doc, st = self.sut.doc, self.sut.store
        name = op["name"]
        n = op["n"]
        if op["kind"] == "xml":
            if name in st.touched:
                cur = doc.get_part(name).serialize()
                self.flags.add("setpart_xml_after_parse")
            else:
                cur = st.current(name)
            if cur is None:
                return []
            root = etree.fromstring(cur)
            root.append(etree.Comment(f"set_part {n}"))
            if self.prop == "C11":
                root.set(xmlref.q("office:version"), "1.%d" % (2 + n % 2))  # (a change the element/attribute comparison sees)
            if op.get("prolog"):
                # document-level nodes other producers write: a licence comment before the root
                # element, a processing instruction after it
                root.addprevious(etree.Comment(f" licence {n} "))
                root.addnext(etree.ProcessingInstruction("sim-trailer", f"n={n}"))
                self.flags.add("xml_part_with_prolog")
            data = etree.tostring(root.getroottree(), xml_declaration=True, encoding="UTF-8")
        else:
            data = _blob(n)
        if self.sut.src["kind"] == "folder":
            self.flags.add("setpart_on_folder_src")
        res, exc = self._call(lambda: doc.set_part(name, data), "set_part")
        self._outcome = f"set_part:{'exc' if exc else 'ok'}"
        if exc is not None:
            return [Violation(self.prop, "raises", "set_part", self._feats(), type(exc).__name__, str(exc))] if self.prop == "C03" else []
        st.set_part(name, data)
        if name == "meta.xml":
            self.user_generator = None  # (the part now is what these bytes say, a generator "read from a file")
        getattr(self, "sub_edits", {}).pop(name, None)
        self.n_edits += 1
        return []

    # ---- C15 ----------------------------------------------------------------------
    def _op_clear_body(self, op):
        doc, st = self.sut.doc, self.sut.store
        res, exc = self._call(lambda: doc.body.clear(), "clear_body")
        st.touched.add("content.xml")
        self.n_edits += 1
        self.flags.add("empty_body")
        self._outcome = "clear_body"
        return []

    def _op_read(self, op):
        doc = self.sut.doc
        try:
            m0 = self._memory()
        except Exception:
            self._outcome = "read:memory-unreadable"
            return []
        feats = self._feats() + ["doctype:" + self._doc_type()]
        for name in op["entries"]:
            fn = doc_reads.ENTRY.get(name)
            if fn is None:
                continue
            self.stats.probe("read:" + name)
            self.n_reads_run += 1
            a1 = a2 = None
            exc1 = exc2 = None
            try:
                a1 = doc_reads._ser(fn(doc))
            except Exception as e:
                exc1 = type(e).__name__
            if isinstance(a1, dict) and "__inconsistent__" in a1:
                self._outcome = "read:answer-differs"
                return [Violation("C15", "answer-differs", "read:" + name, feats + ["order_of_reads"], None, a1["__inconsistent__"])]
            try:
                m1 = self._memory()
            except Exception as e:
                self._outcome = "read:memory-unreadable-after"
                return [Violation("C15", "document-unreadable-after-read", "read:" + name, feats, type(e).__name__, f"{type(e).__name__}: {e}")]
            d = self._mem_diff_exact(m0, m1)
            if d:
                self._outcome = "read:changed"
                return [Violation("C15", "read-changed-document", "read:" + name, feats + (["read_raised"] if exc1 else []), None, d)]
            try:
                a2 = doc_reads._ser(fn(doc))
            except Exception as e:
                exc2 = type(e).__name__
            if exc1 or exc2:
                self.stats.probe("read_raised")
                if exc1 != exc2:
                    return [Violation("C15", "answer-differs", "read:" + name, feats, exc1 or exc2, f"first call: {exc1 or 'returned'}, second call: {exc2 or 'returned'}")]
            elif a1 != a2:
                self._outcome = "read:answer-differs"
                return [Violation("C15", "answer-differs", "read:" + name, feats, None, f"two consecutive calls answered differently: {str(a1)[:120]!r} vs {str(a2)[:120]!r}")]
            d = self._mem_diff_exact(m0, self._memory())
            if d:
                return [Violation("C15", "read-changed-document", "read:" + name, feats + ["second_call"], None, d)]
            can = doc_reads.md_canary()
            if can != self.canary0:
                self._outcome = "read:global-state"
                return [Violation("C15", "export-context-not-reset", "read:" + name, feats + (["read_raised"] if exc1 else []), None,
                                  f"the module-global Markdown export context (odfdo.mixin_md.MD_GLOBAL) is left {can[0]} after this call (was {self.canary0[0]}): later string conversions of numbered lists count on from call to call")]
        self._outcome = "read:ok"
        return []

    @staticmethod
    def _mem_diff_exact(a, b):
        for n in a:
            if n not in b:
                return f"{n} disappeared"
            if a[n] != b[n]:
                if n in ds.STD_XML:
                    try:
                        ta, tb = xmlref.paragraphs_text(a[n]), xmlref.paragraphs_text(b[n])
                        what = "readable text changed" if ta != tb else ("infoset changed" if xmlref.c14n(a[n]) != xmlref.c14n(b[n]) else "serialisation changed")
                    except Exception:
                        what = "changed"
                    return f"{n}: {what} ({len(a[n])} -> {len(b[n])} bytes)"
                return f"{n} changed"
        for n in b:
            if n not in a:
                return f"{n} appeared"
        return None

    # ---- C13 ----------------------------------------------------------------------
    def _c13_note(self):
        for e in self.c13_inserted:
            self.c13_latest[e["key"]] = e
            if e["family"] == "font-face":
                # the two parts declare their fonts separately: the document-level lookup answers with the declaration
                # of content.xml when both have the name; an older declaration of the OTHER part is then no longer
                # what a lookup returns (it is still checked for presence)
                for k2, e2 in self.c13_latest.items():
                    if e2 is not e and e2["family"] == "font-face" and e2["name"] == e["name"] and k2 != e["key"] and e["key"][0] == "content":
                        e2["lookup_superseded"] = True
        self.c13_inserted = []

    def _op_ins_style(self, op):
        doc, st = self.sut.doc, self.sut.store
        vs = doc_styles.run_insert(self, op, doc, self._feats())
        st.touched |= {"content.xml", "styles.xml"}
        self.n_edits += 1
        self._outcome = "ins_style:" + (vs[0].oracle if vs else "ok")
        self._c13_note()
        return vs

    def _op_ins_style_other(self, op):
        if self.other is None:
            return []
        if op.get("into_styles_automatic"):
            # an automatic style of styles.xml in the other document (as office suites write for
            # headers/footers), put there through the element API: a name the receiving document
            # may hold as a COMMON style
            try:
                style = doc_styles.build_style(op)
                cont = self.other.styles.get_element("//office:automatic-styles")
                old = [e for e in cont.children if getattr(e, "family", None) == op["family"] and getattr(e, "name", None) == op.get("name")]
                for e in old:
                    cont.delete(e)
                cont.append(style)
                self.flags.add("other_has_styles_xml_automatic_style")
            except Exception:
                pass
            self._outcome = "ins_style_other:styles_automatic"
            return []
        keep = self.c13_inserted
        self.c13_inserted = []
        vs = doc_styles.run_insert(self, op, self.other, ["on_other_document"])
        self.c13_inserted = keep
        self._outcome = "ins_style_other:" + (vs[0].oracle if vs else "ok")
        self.flags.add("other_has_unsaved_styles")
        return vs

    def _op_open_other(self, op):
        from odfdo import Document

        kind, name = op["source"].split(":", 1)
        self.other = Document(name) if kind == "template" else Document(os.path.join(ds.SAMPLES, name))
        d_ = dict(getattr(self, "ff_content_names", {}))
        d_["other"] = set()
        self.ff_content_names = d_
        self.flags.discard("other_has_unsaved_styles")
        self._outcome = "open_other"
        return []

    def _op_merge(self, op):
        if self.other is None:
            return []
        doc, st = self.sut.doc, self.sut.store
        vs = doc_styles.run_merge(self, op, doc, self.other, self._feats())
        d_ = dict(getattr(self, "ff_content_names", {}))
        d_["main"] = set(d_.get("main", set())) | set(d_.get("other", set()))  # (the merge brings the other document's declarations in)
        self.ff_content_names = d_
        if "other_has_styles_xml_automatic_style" in self.flags:
            self.flags.add("merged_styles_xml_automatic")
        st.touched |= {"content.xml", "styles.xml", ds.MANIFEST}
        for n in doc.container._Container__parts:  # inspection only: files the merge brought in
            if n not in st.names() and doc.container._Container__parts[n] is not None:
                st.over[n] = doc.container._Container__parts[n]
        self.n_edits += 1
        self._outcome = "merge:" + (vs[0].oracle if vs else "ok")
        # the other document's definitions win: forget what they replaced
        try:
            pop = doc_styles.population(doc)
            self.c13_latest = {k: e for k, e in self.c13_latest.items() if pop.get(k) == [e["c14n"]]}
        except Exception:
            self.c13_latest = {}
        return vs

    def _op_page_break_style(self, op):
        doc, st = self.sut.doc, self.sut.store
        feats = self._feats()
        if op.get("pre"):
            from odfdo import Element

            feats = feats + ["same_name_style_not_a_page_break"]
            try:
                doc.insert_style(Element.from_tag(
                    '<style:style style:family="paragraph" style:name="odfdopagebreak">'
                    f'<style:paragraph-properties fo:break-after="{op["pre"]}"/></style:style>'), automatic=False)
            except Exception:
                return []
        try:
            doc.add_page_break_style()
            p1 = doc_styles.population(doc)
            doc.add_page_break_style()
            p2 = doc_styles.population(doc)
        except Exception as e:
            return [Violation("C13", "page-break-style-raises", "page_break_style", feats, type(e).__name__, str(e))]
        st.touched |= {"content.xml", "styles.xml"}
        self._outcome = "page_break_style"
        key = ("styles", "office:styles", "style:style", "paragraph", "odfdopagebreak")
        got = doc.get_style("paragraph", "odfdopagebreak")
        props = (got.get_properties() or {}) if got is not None else {}
        if props.get("fo:break-after") != "page":
            return [Violation("C13", "page-break-style-not-ensured", "page_break_style", feats, None,
                              f"after add_page_break_style() the style found under that name has fo:break-after={props.get('fo:break-after')!r}")]
        if len(p1.get(key, [])) != 1:
            return [Violation("C13", "wrong-container", "page_break_style", feats, None, f"{len(p1.get(key, []))} definitions of {key}")]
        if p1 != p2:
            return [Violation("C13", "not-idempotent", "page_break_style", feats, None, "a second add_page_break_style changed the styles")]
        v = doc_styles.check_lookup(doc, "paragraph", "odfdopagebreak", False, p1[key][0], feats, "page_break_style")
        return [v] if v else []

    def _op_table_displayed(self, op):
        doc, st = self.sut.doc, self.sut.store
        feats = self._feats()
        try:
            tables = doc.body.get_tables()
        except Exception:
            return []
        if not tables:
            return []
        ti = op.get("table", 0) % len(tables)
        flag = op["displayed"]
        for rep in range(op.get("times", 1)):
            try:
                before = doc_styles.population(doc)
                doc.set_table_displayed(ti, flag)
                after = doc_styles.population(doc)
            except Exception as e:
                return [Violation("C13", "set_table_displayed-raises", "table_displayed", feats, type(e).__name__, f"{type(e).__name__}: {e}")]
            st.touched |= {"content.xml", "styles.xml"}
            self._outcome = "table_displayed"
            self.c13_display[ti] = flag
            f = feats + (["repeated"] if rep else [])
            for k, v in after.items():
                if len(v) > 1 and before.get(k) != v:
                    return [Violation("C13", "duplicate", "table_displayed", f, None, f"{len(v)} definitions of {k}")]
            for k, v in before.items():
                if after.get(k) != v:
                    return [Violation("C13", "other-style-changed", "table_displayed", f, None, f"{k} changed")]
            # every table set so far still shows what it was told to (each has its own style)
            tabs = doc.body.get_tables()
            for j, want_flag in sorted(self.c13_display.items()):
                if j >= len(tabs):
                    continue
                name = tabs[j].style
                got = doc.get_style("table", name)
                if got is None:
                    return [Violation("C13", "lookup-misses", "table_displayed", f, None, f"style {name!r} of table #{j} not found")]
                props = got.get_properties() or {}
                if props.get("table:display") != ("true" if want_flag else "false"):
                    return [Violation("C13", "table-display-not-set", "table_displayed", f + (["other_table"] if j != ti else []), None,
                                      f"table #{j} (style {name!r}) has table:display={props.get('table:display')!r}, it was set to {want_flag}")]
            flag = not flag
        return []

    def _op_relookup(self, op):
        doc = self.sut.doc
        feats = self._feats()
        self._outcome = "relookup"
        try:
            pop = doc_styles.population(doc)
        except Exception:
            return []
        for k, e in sorted(self.c13_latest.items(), key=repr):
            if pop.get(k) != [e["c14n"]]:
                return [Violation("C13", "style-lost-or-duplicated", "relookup", feats + ["family:" + e["family"]], None, f"{k}: {len(pop.get(k, []))} definitions, the inserted one {'present' if e['c14n'] in pop.get(k, []) else 'absent'}")]
            if e.get("lookup_superseded"):
                continue
            v = doc_styles.check_lookup(doc, e["family"], e["name"], e["default"], e["c14n"], feats + ["family:" + e["family"]], "relookup")
            if v:
                return [v]
        self.stats.probe("relookup_checked", len(self.c13_latest))
        return []

    def _op_env_touch_source(self, op):
        """environment: a file of the source folder gets a new modification time, its
        content unchanged (another tool touched it / a clock jump). No property is about
        a concurrent *writer*; a touch changes nothing the document may depend on."""
        src = self.sut.src
        if src["kind"] != "folder" or not src.get("path"):
            return []
        f = os.path.join(src["path"], op["name"])
        if os.path.isfile(f):
            self.env.set_mtime(f, self.env.now + op.get("dt2", 0.0))
            self.stats.probe("env:source-file-touched")
            self.flags.add("source_file_touched")
        self._outcome = "env_touch_source"
        return []

    def _op_set_mimetype(self, op):
        """the document type is switched to / from its template variant through Document.mimetype (the manifest
        root entry is left as it is: a later save must not 'repair' the in-memory manifest behind the user's back)"""
        doc, st = self.sut.doc, self.sut.store
        cur = st.mimetype
        new = cur[: -len("-template")] if cur.endswith("-template") else cur + "-template"
        res, exc = self._call(lambda: setattr(doc, "mimetype", new), "set_mimetype")
        self._outcome = f"set_mimetype:{'exc' if exc else 'ok'}"
        if exc is not None:
            return []
        st.over["mimetype"] = new.encode()
        st.mimetype = new
        self.flags.add("mimetype_switched")
        self.n_edits += 1
        return []

    def _op_set_part_many(self, op):
        """many new parts at once (size knob: more parts in memory than members in the source)"""
        doc, st = self.sut.doc, self.sut.store
        for i in range(op["k"]):
            name = f"Extra/m{op['n']}_{i}.bin"
            data = _blob(op["n"] * 100 + i)
            res, exc = self._call(lambda: doc.set_part(name, data), "set_part")
            if exc is not None:
                return []
            st.set_part(name, data)
        self.n_edits += 1
        self.flags.add("many_new_parts")
        self._outcome = "set_part_many"
        return []

    def _op_del_part(self, op):
        doc, st = self.sut.doc, self.sut.store
        name = op["name"]
        if name not in st.names():
            return []
        res, exc = self._call(lambda: doc.del_part(name), "del_part")
        self._outcome = f"del_part:{'exc' if exc else 'ok'}"
        if exc is not None:
            return [Violation(self.prop, "raises", "del_part", self._feats(), type(exc).__name__, str(exc))] if self.prop == "C03" else []
        st.del_part(name)
        st.touched.add(ds.MANIFEST)  # del_part also removes the manifest entry: the live manifest is authoritative
        self.flags.add("deleted_part")
        self.n_edits += 1
        return []

    def _op_add_file(self, op):
        doc, st = self.sut.doc, self.sut.store
        via = op["via"]
        cid = op["content"]
        data = _blob(cid)
        if via == "image":
            src = IMG1 if cid % 2 == 0 else IMG2
            with open(src, "rb") as f:
                data = f.read()
            arg = src
        elif via == "path_odd":
            # a file whose suffix has characters that are not URL-safe (kept verbatim in the part name)
            p = os.path.join(self.scratch, f"blob{cid}" + [".c++", ".é x", ".Fig 3", ".a&b"][cid % 4])
            with open(p, "wb") as f:
                f.write(data)
            arg = p
        elif via in ("path", "pathobj"):
            # two path slots for four contents: the same path is handed over again after its file was rewritten
            p = os.path.join(self.scratch, f"blob{cid % 2}.bin")
            with open(p, "wb") as f:
                f.write(data)
            arg = p if via == "path" else __import__("pathlib").Path(p)
        elif via == "bytesio":
            arg = io.BytesIO(data)
        else:
            arg = simenv.ChunkedReader(data)
            self.stats.probe("env:short-read-source")
        res, exc = self._call(lambda: doc.add_file(arg), "add_file")
        self._outcome = f"add_file:{'exc' if exc else 'ok'}"
        if exc is not None:
            return [Violation(self.prop, "raises", "add_file", self._feats() + ["via:" + via], type(exc).__name__, str(exc))] if self.prop in ("C03", "C04") else []
        if res in st.names():
            self.flags.add("added_same_file_twice")
            self.stats.probe("repeated_add_file")
        st.over[res] = data
        st.touched.add(ds.MANIFEST)
        self.flags.add("added_file")
        if via != "image":
            self._added = getattr(self, "_added", []) + [[cid, via]]
        self.n_edits += 1
        if not res.startswith("Pictures/"):
            return [Violation(self.prop, "add_file-name", "add_file", self._feats(), None, f"returned {res!r}")]
        return []

    def _op_clone_swap(self, op):
        """C04 histories: continue on a clone of the document"""
        doc, st = self.sut.doc, self.sut.store
        # Document.clone drops unsaved edits of parsed parts (C10's business):
        # the C04 model follows what the clone really holds, part by part
        res, exc = self._call(lambda: doc.clone, "clone")
        self._outcome = f"clone:{'exc' if exc else 'ok'}"
        if exc is not None:
            return []
        self.stats.probe("continued_on_clone")
        self.user_generator = None  # (what a clone does with the generator is not judged)
        self.sub_edits = {}
        new = ds.PartStore()
        new.mimetype = st.mimetype
        for n in st.names():
            if n.endswith("/"):
                new.base[n] = b""
                continue
            try:
                new.base[n] = res.container.get_part(n)
            except Exception:
                pass
        # the original stays alive, untouched from now on: it must still save what it held
        try:
            self.shadow = {"doc": doc, "expected": self._expected_for_save(), "mimetype": st.mimetype, "flags": set(self.flags) | {"cloned"}, "src_path": self.sut.src.get("path"), "baseline": set(self.baseline_c04)}
        except Exception:
            self.shadow = None
        self.sut.doc = res
        self.sut.store = new
        self.sut.src = {"kind": "clone", "path": None, "packaging": "zip"}
        self.flags.add("cloned")
        if self.prop == "C13":
            # the clone holds the same styles: everything inserted so far is found in it
            return self._op_relookup(op)
        return []

    def _op_save_other(self, op):
        """save the document that was left behind at the last clone (no op touched it since)"""
        sh = self.shadow
        if not sh:
            return []
        buf = io.BytesIO()
        res, exc = self._call(lambda: sh["doc"].save(buf), "save_other")
        self._outcome = f"save_other:{'exc' if exc else 'ok'}"
        feats = sorted(sh["flags"]) + ["other_twin"]
        if exc is not None:
            return [Violation(self.prop, "save-raises", "save_other", feats, type(exc).__name__, str(exc))]
        self.stats.probe("saved_untouched_original_after_clone")
        pkg = xmlref.read_package(buf.getvalue())
        if self.prop == "C04":
            for rule, det in ds.inspect_odf_zip(pkg, sh["mimetype"]):
                if (rule, det) in sh.get("baseline", self.baseline_c04):  # (what the inspector already found in ITS source)
                    continue
                return [Violation("C04", rule, "save_other", feats, None, det)]
        else:
            exp = {k: v for k, v in sh["expected"].items() if v is not None}
            optional = {k for k, v in sh["expected"].items() if v is None}
            for kind, det in ds.compare_package(pkg, exp, optional):
                return [Violation(self.prop, kind, "save_other", feats, None, det)]
        return []

    def _op_merge_styles(self, op):
        from odfdo import Document

        doc, st = self.sut.doc, self.sut.store
        other = Document(os.path.join(ds.SAMPLES, op["src"].split(":", 1)[1]))
        res, exc = self._call(lambda: doc.merge_styles_from(other), "merge")
        self._outcome = f"merge:{'exc' if exc else 'ok'}"
        if exc is not None:
            self.stats.probe("merge_raised")
            return []
        # merge may copy pictures and edits styles/content/manifest: re-derive the
        # model's file list from what the document now holds (C04 judges the package)
        st.touched |= {"styles.xml", "content.xml", ds.MANIFEST}
        for n in doc.container._Container__parts:  # inspection only: which files the merge brought in
            if n not in st.names() and doc.container._Container__parts[n] is not None:
                st.over[n] = doc.container._Container__parts[n]
        self.flags.add("merged_styles")
        self._merged_srcs = getattr(self, "_merged_srcs", []) + [op["src"]]
        if self._merged_srcs.count(op["src"]) > 1:
            self.flags.add("merged_same_source_again")
        self.n_edits += 1
        return []

    def _op_add_extra(self, op):
        doc, st = self.sut.doc, self.sut.store
        name, data = op["name"], _blob(op["n"])
        res, exc = self._call(lambda: (doc.set_part(name, data), doc.manifest.add_full_path(name, op["media"])), "add_extra")
        self._outcome = f"add_extra:{'exc' if exc else 'ok'}"
        if exc is not None:
            return [Violation(self.prop, "raises", "add_extra", self._feats(), type(exc).__name__, str(exc))]
        if name in st.names():
            self.flags.add("extra_part_registered_again")
        st.set_part(name, data)
        st.touched.add(ds.MANIFEST)
        self.flags.add("extra_part")
        self.n_edits += 1
        return []

    # ---- save ------------------------------------------------------------
    def _feats(self):
        return sorted(self.flags | {"src:" + self.sut.src["kind"]})

    def _expected_for_save(self):
        doc, st = self.sut.doc, self.sut.store
        exp = ds.read_expected(doc, st)
        # Document.save reconciles manifest.rdf with the manifest (documented mechanism)
        man = doc.get_part("manifest").serialize() if ds.MANIFEST in st.touched else st.current(ds.MANIFEST)
        try:
            lists = ds.manifest_lists_rdf(man)
        except Exception:
            lists = False
        if lists and ds.RDF not in exp:
            exp[ds.RDF] = None  # content not judged
        elif not lists and ds.RDF in exp:
            del exp[ds.RDF]
        return exp

    def _save_target(self, op):
        pk = op["packaging"]
        tk = op["target"]
        ext = EXT.get(self._doc_type(), ".odt")
        if tk == "path":
            return self.sut.newpath("out", ext if pk != "xml" else ".xml"), "path"
        if tk == "path_noext":
            return self.sut.newpath("out"), "path"
        if tk == "dotfolder":
            return self.sut.newpath("out") + ".folder", "path"
        if tk == "bytesio":
            return simenv.FaultyBytesIO(), "bytesio"
        if tk == "bytesio_reuse":
            if self.last_buf is None:
                return simenv.FaultyBytesIO(), "bytesio"
            self.stats.probe("env:bytesio-target-already-holds-data")
            return self.last_buf, "bytesio"
        if tk == "inplace":
            return None, "inplace"
        if tk == "existing":
            i = op.get("existing", 0)
            if i < len(self.artifacts) and self.artifacts[i].get("given"):
                return self.artifacts[i]["given"], "path"
            return self.sut.newpath("out", ext), "path"
        raise ValueError(tk)

    def _resolved(self, given, pk):
        """where odfdo documents the output to land for a path target"""
        if pk == "folder":
            g = given
            while g.endswith(".folder"):
                g = g[: -len(".folder")]
            return g + ".folder"
        if pk == "xml":
            if given.endswith(".xml"):
                return given
            return given + ".xml"
        return given

    def _op_save(self, op):
        doc, st = self.sut.doc, self.sut.store
        pk = op["packaging"]
        if op["target"] == "inplace" and not self.sut.src["path"]:
            return []
        # ---- before
        try:
            expected = self._expected_for_save()
        except Exception as e:
            # the in-memory document cannot even be read: reported under C03 only
            self._outcome = "save:unreadable-memory"
            if self.prop == "C03":
                return [Violation("C03", "memory-unreadable", "save", self._feats(), type(e).__name__, str(e))]
            return []
        unread = [n for n in st.names() if n not in st.over and n not in st.touched and n != "mimetype"]
        if self.sut.src["path"] and unread:
            self.stats.probe("unread_parts_fetched_at_save")
        given, tkind = self._save_target(op)
        feats = self._feats() + ["pk:" + pk, "target:" + op["target"]]
        if op.get("backup"):
            feats.append("backup")
        if op.get("pretty") is not None:
            feats.append("pretty:" + str(op["pretty"]))
        old_cwd = os.getcwd()
        if op.get("chdir"):
            sub = os.path.join(self.scratch, "elsewhere")
            os.makedirs(sub, exist_ok=True)
            os.chdir(sub)
            self.stats.probe("env:cwd-changed")
        fault = op.get("fault")
        if fault:
            self.env.arm(fault)
        kw = {"packaging": pk}
        if op.get("pretty") is not None:
            kw["pretty"] = op["pretty"]
        if op.get("backup"):
            kw["backup"] = True
        # whatever happens, an earlier artefact at the same place is gone (overwritten, torn, or moved to a backup)
        if tkind != "bytesio":
            g0 = given if given is not None else self.sut.src["path"]
            r0 = self._resolved(g0, pk)
            for a in self.artifacts:
                if a.get("path") in (r0, g0):
                    a["dead"] = True
        o_ = getattr(self, "_c10_other", None)
        if tkind != "bytesio" and o_ is not None and o_.src.get("path") and o_.src["path"] in (r0, g0):
            # (C10) this twin is saved onto the very file the other twin was lazily opened from: same situation as
            # twin_save_over_source, reached through an ordinary save to a pre-existing target
            self.flags.add("source_overwritten_by_clone")
        if tkind != "bytesio" and self.shadow and self.shadow.get("src_path") and self.shadow["src_path"] in (r0, g0):
            self.shadow["flags"].add("source_overwritten_by_clone")
            if os.path.isdir(self.shadow["src_path"]):
                # a document opened from a folder is by design a live view of that folder: the clone writing
                # into (or moving away) that very folder is an external writer, which no property covers -
                # the original is not saved again in this history (same rule as for the C10 twins)
                self.stats.probe("shadow_dropped:source_folder_overwritten")
                self.shadow = None
        res, exc = self._call(lambda: doc.save(given, **kw), "save")
        fired = self.env.disarm() if fault else False
        os.chdir(old_cwd)
        if fired:
            self.n_faults += 1
            self.stats.probe("fault:" + fault["site"] + ":" + fault["errno"])
            feats.append("fault:" + fault["site"])
        self._outcome = f"save:{pk}:{op['target']}:{'exc' if exc else 'ok'}:{'fault' if fired else ''}"
        # Document.save parses meta and manifest (generator stamp, rdf check)
        post_touched = {"meta.xml", ds.MANIFEST}
        eff_pretty = op.get("pretty")
        if eff_pretty is None:
            eff_pretty = pk in ("folder", "xml")
        if eff_pretty and pk != "xml":
            post_touched |= {"content.xml", "styles.xml", "settings.xml"}
        vs = []
        if exc is not None:
            if fired:
                # fail-stop: may fail, never silently wrong. Nothing is asserted on the torn target.
                self.stats.probe("fault_survived_by_raise")
                if op["target"] == "inplace" or (tkind != "bytesio" and self.sut.src["path"] and self._resolved(given, pk) == self.sut.src["path"]):
                    self.flags.add("source_torn_by_failed_save")
                vs += self._oracle_after_failed_save(op, expected, feats)
                st.touched |= post_touched
                return vs
            st.touched |= post_touched
            return [Violation(self.prop, "save-raises", "save", feats, type(exc).__name__, f"{type(exc).__name__}: {exc}")] if self.prop in ("C03", "C04", "C11") else []
        if fired:
            self.stats.probe("fault_swallowed_save_returned")
        self.n_saves += 1
        st.touched |= post_touched
        # ---- artefact
        art = {"packaging": pk, "expected": expected, "mimetype": st.mimetype, "feats": feats, "c13_latest": dict(self.c13_latest)}
        if tkind == "bytesio":
            art["data"] = given.getvalue()
            self.last_buf = given
        else:
            g = given if given is not None else self.sut.src["path"]
            art["given"] = g
            art["path"] = self._resolved(g, pk)
        art["hist_flags"] = sorted(self.flags & {"merged_styles_xml_automatic"})  # facts that travel with the saved file
        self.artifacts.append(art)
        vs += self._oracle_saved(op, art, feats)
        return vs

    def _read_art(self, art):
        if "data" in art:
            if art["packaging"] == "xml":
                return None
            return xmlref.read_package(art["data"])
        if art["packaging"] == "xml":
            return None
        return xmlref.read_package(art["path"])

    def _oracle_after_failed_save(self, op, expected, feats):
        return []

    def _oracle_saved(self, op, art, feats):
        prop = self.prop
        vs = []
        pk = art["packaging"]
        if pk == "xml":
            data = art.get("data")
            if data is None:
                if not os.path.exists(art["path"]):
                    return [Violation(prop, "target-missing", "save", feats, None, f"no file at {os.path.basename(art['path'])}")] if prop in ("C03", "C11") else []
                with open(art["path"], "rb") as f:
                    data = f.read()
            if prop in ("C03",):
                try:
                    root = etree.fromstring(data)
                except Exception as e:
                    return [Violation("C03", "flat-xml-malformed", "save", feats, type(e).__name__, str(e))]
                if root.get(xmlref.q("office:mimetype")) != art["mimetype"]:
                    vs.append(Violation("C03", "flat-xml-mimetype", "save", feats, None, str(root.get(xmlref.q("office:mimetype")))))
            return vs
        if "path" in art and not os.path.exists(art["path"]):
            return [Violation(prop, "target-missing", "save", feats, None, f"nothing at {os.path.basename(art['path'])}")] if prop in ("C03", "C04", "C11") else []
        try:
            pkg = self._read_art(art)
        except Exception as e:
            return [Violation(prop, "saved-package-unreadable", "save", feats, type(e).__name__, str(e))] if prop in ("C03", "C04") else []
        if prop == "C03":
            exp = {k: v for k, v in art["expected"].items() if v is not None}
            optional = {k for k, v in art["expected"].items() if v is None}
            problems = ds.compare_package(pkg, exp, optional)
            ug = getattr(self, "user_generator", None)
            if ug and not problems and "meta.xml" in pkg.parts:
                g = etree.fromstring(pkg.parts["meta.xml"]).find(".//" + xmlref.q("meta:generator"))
                if g is None or (g.text or "") != ug:
                    problems = [("edit-not-in-part", f"meta.xml: the generator set through the API ({ug!r}) is {(g.text if g is not None else None)!r} in the saved file")]
            if not problems:
                for sn, ver in sorted(getattr(self, "sub_edits", {}).items()):
                    if sn in pkg.parts and sn in exp:
                        got_ver = etree.fromstring(pkg.parts[sn]).get(xmlref.q("office:version"))
                        if got_ver != ver:
                            problems = [("edit-not-in-part", f"{sn}: office:version set to {ver!r} through Document.get_part(...).root is {got_ver!r} in the saved file")]
                            break
            for kind, det in problems:
                f2 = feats + ["part:" + det.split(":")[0]] if kind == "part-differs" else (feats + ["empty_dir_entry"] if det.endswith("/") else feats)
                vs.append(Violation("C03", kind, "save", f2, None, det))
                return vs
            vs += self._oracle_reopen_equal(art, feats)
        elif prop == "C04" and pk == "zip":
            pr = ds.inspect_odf_zip(pkg, art["mimetype"])
            for rule, det in pr:
                if (rule, det) in self.baseline_c04 or (rule, "*") in self.baseline_c04:
                    continue
                vs.append(Violation("C04", rule, "save", feats, None, det))
                return vs
        return vs

    def _oracle_reopen_equal(self, art, feats):
        """every part read back through odfdo equals the snapshot"""
        from odfdo import Document

        src = io.BytesIO(art["data"]) if "data" in art else art["path"]
        try:
            d2 = Document(src)
            for n, want in art["expected"].items():
                if want is None or n.endswith("/"):
                    continue
                if n in ds.STD_XML:
                    data = d2.get_part(n).serialize()
                else:
                    data = d2.container.get_part(n)  # raw bytes (sub-document XML parts: compared as XML by canon)
                if ds.canon(n, data) != want:
                    return [Violation("C03", "reopened-part-differs", "save", feats + ["part:" + n], None, f"{n} read back through odfdo differs from memory at save time")]
        except Exception as e:
            return [Violation("C03", "reopen-raises", "save", feats, type(e).__name__, f"{type(e).__name__}: {e}")]
        return []

    # ---- reopen ------------------------------------------------------------
    def _op_reopen(self, op):
        i = op["art"]
        if i >= len(self.artifacts):
            return []
        art = self.artifacts[i]
        if art["packaging"] == "xml" or art.get("dead"):
            return []
        if "data" in art:
            p = self.sut.newpath("re", EXT.get(self._doc_type(), ".odt"))
            with open(p, "wb") as f:
                f.write(art["data"])
            self.env.touch(p)
        else:
            p = art["path"]
            if not os.path.exists(p):
                return []
        how = op.get("how", "path")
        if os.path.isdir(p):
            how = "folderpath"
        res, exc = self._call(lambda: self.sut.open_artifact(p, how, op.get("salt", 0)), "reopen")
        self._outcome = f"reopen:{how}:{'exc' if exc else 'ok'}"
        if exc is not None:
            if self.prop == "C03":
                return [Violation("C03", "reopen-raises", "reopen", self._feats() + ["how:" + how], type(exc).__name__, f"{type(exc).__name__}: {exc}")]
            raise HarnessError(f"cannot reopen artefact: {exc}")
        self.n_reopen += 1
        self.user_generator = None  # (a generator read from a file is replaced at the next save: documented)
        self.sub_edits = {}
        # facts about the other document stay true; facts saved with the artefact come back with it
        self.flags = (self.flags & {"other_has_styles_xml_automatic_style", "other_has_unsaved_styles"}) | set(art.get("hist_flags", []))
        self._after_open(op)
        if self.prop == "C13":
            self.flags.add("reopened")
            self.c13_latest = dict(art.get("c13_latest", {}))  # what had been inserted when that artefact was written
            self.c13_display = {}
            return self._op_relookup(op)
        self.stats.probe("env:reopen-" + how)
        if how in ("folder", "folderpath") and op.get("salt"):
            self.stats.probe("env:listing-order")
        return []

    # ---------------------------------------------------------------- resync
    def resync(self):
        """after a known finding: carry on from what the document really holds"""
        doc, st = self.sut.doc, self.sut.store
        new = ds.PartStore()
        new.mimetype = st.mimetype
        for n in st.names():
            if n.endswith("/"):
                new.base[n] = b""
                continue
            try:
                if n in ds.STD_XML or n in st.touched:
                    new.base[n] = doc.get_part(n).serialize()
                    new.touched.add(n)
                else:
                    new.base[n] = doc.container.get_part(n)
            except Exception:
                pass
        self.sut.store = new
        # (the history flags stay: they are facts about the history, still true)

    def finish(self):
        return []
