"""C08 — getters return correctly addressed, expanded, detached copies.

A 'probe' op calls one getter with seeded coordinates, checks the returned
objects (coordinates, no repeat count where the read expands repetitions),
then MUTATES one returned object and re-inspects the table and the other
returned objects (DESIGN §6 C08).
"""
from __future__ import annotations

from lxml import etree

from simkit.kernel import Violation
from engines import tablesim as ts

# getters whose docstring promises copies ("A copy is returned" / "Copies are returned")
DOCUMENTED_COPY = {
    "get_cell", "get_row", "traverse", "row_traverse", "row_get_cell", "get_column", "get_columns",
    "columns", "traverse_columns",
    # get_column_cells documents no copy in its docstring, but the property's
    # quantifier names it, it is built from Table.traverse() + Row.get_cell()
    # (both documented as returning copies) and passes clone=True explicitly
    "get_column_cells",
}
# reads that expand repetitions: returned items must carry no repeat count
EXPANDING = {
    "traverse", "get_rows", "rows", "get_cells", "cells", "row_traverse", "row_cells", "row_get_cells",
    "traverse_columns", "get_columns", "columns",
}
GETTERS = [
    ("get_cell", 6), ("get_row", 5), ("get_cells", 4), ("get_rows", 3), ("traverse", 4), ("rows", 2), ("cells", 2),
    ("get_column", 3), ("get_columns", 3), ("columns", 2), ("traverse_columns", 3), ("get_column_cells", 3),
    ("row_get_cell", 3), ("row_traverse", 3), ("row_cells", 2), ("row_get_cells", 2), ("get_value", 2),
    ("row_reports", 2), ("outside_live", 2),
]
MUTS = ["set_value", "style", "repeated", "clear", "append_cell", "row_set_value"]


def gen_probe(eng, rng, tv):
    g = rng.weighted(GETTERS, "getter")
    op = {"op": "probe", "getter": g}
    W, H = tv.width, tv.height
    if g in ("get_cell", "get_value"):
        op["c"] = eng._coord(rng, tv)
        if g == "get_cell" and rng.chance(0.2, "keeprep"):
            op["keep_repeated"] = False
    elif g == "row_reports":
        # reports about a row, mostly at / past the end of the table
        op["y"] = H + rng.choice([0, 0, 1, 3], "ry_off") if rng.chance(0.7, "ry_out") else eng._pick_y(rng, tv)
    elif g == "outside_live":
        # clone=False reads of positions that hold nothing: past the end of a row / of the table
        y = eng._pick_y(rng, tv)
        op["y"] = y
        rw = len(tv.rows[y]) if y < H else 0
        op["x"] = rw + rng.choice([0, 0, 1, 2], "ox_off")
    elif g in ("get_row", "row_get_cell", "row_traverse", "row_cells", "row_get_cells"):
        y = eng._pick_y(rng, tv)
        op["y"] = y
        if g == "get_row" and rng.chance(0.25, "live_row"):
            op["live"] = True
        if g == "row_get_cell":
            op["x"] = eng._pick_x_in_row(rng, tv, y)
        if g in ("row_traverse", "row_get_cells") and rng.chance(0.6, "range?"):
            rw = len(tv.rows[y]) if y < H else 0
            a = rng.randint(0, rw + 1, "rs")
            b = rng.randint(a, rw + 2, "re")
            op["start"], op["end"] = a, b
    elif g in ("get_cells", "get_rows"):
        if rng.chance(0.7, "area?"):
            op["area"] = eng._area(rng, tv)
    elif g == "traverse":
        if rng.chance(0.5, "range?"):
            a = rng.randint(0, H + 1, "ts")
            op["start"], op["end"] = a, rng.randint(a, H + 2, "te")
    elif g in ("get_column", "get_column_cells"):
        op["x"] = eng._pick_col(rng, tv)
        if g == "get_column_cells" and rng.chance(0.5, "filter?"):
            op["filter"] = rng.choice(["cell_type_all", "cell_type_float", "content", "style"], "filter")
    elif g == "traverse_columns":  # (get_columns(coord) range semantics are C19's business: called without coord)
        if rng.chance(0.6, "range?"):
            a = rng.randint(0, W + 1, "cs")
            op["start"], op["end"] = a, rng.randint(a, W + 2, "ce")
    # negative indexes count from the end (documented coordinate form); on an empty axis they mean 0
    if g in ("get_cell", "get_value", "get_row", "get_column", "get_column_cells", "row_get_cell") and rng.chance(0.15, "neg?"):
        op["neg"] = True
        if "c" in op:
            op["c"].pop("form", None)
    op["mut"] = rng.choice(MUTS, "mut")
    op["which"] = rng.randint(0, 50, "which")
    eng.counter += 1
    op["v"] = f"m{eng.counter}"
    op["k"] = rng.choice([None, 2, 3], "mk")
    op["obs"] = {"level": "none"}
    return op


def _flat(res):
    out = []
    for r in res:
        if isinstance(r, list):
            out.extend(r)
        else:
            out.append(r)
    return out


def run_probe(eng, op, tv):
    """returns list[Violation]"""
    from odfdo import Cell, Column, Row

    t = eng.sut.table
    g = op["getter"]
    name = "probe:" + g
    W, H = tv.width, tv.height
    feats = []
    vs = []
    before_xml = t.serialize()
    before_size = t.size
    eng._restore_xml = etree.tostring(ts.lx(t), encoding="unicode")
    exp = []  # expected (kind, x, y) per returned object, same order as objs

    def neg(i, n):
        """(argument, index meant): the negative spelling of index i on an axis of length n"""
        if not op.get("neg"):
            return i, i
        if n == 0:
            return -1, 0
        if i < n:
            return i - n, i
        return i, i

    if op.get("neg"):
        feats.append("negative_index")
        op = dict(op)
        if "c" in op:
            ax, mx = neg(op["c"]["x"], W)
            ay, my = neg(op["c"]["y"], H)
            op["c"] = {"x": mx, "y": my}
            neg_coord = (ax, ay)
        if "y" in op:
            neg_y, op["y"] = neg(op["y"], H)
        if "x" in op and g != "row_get_cell":
            neg_x, op["x"] = neg(op["x"], W)
    try:
        if g == "get_cell":
            c = op["c"]
            kw = {"keep_repeated": False} if op.get("keep_repeated") is False else {}
            objs = [t.get_cell(neg_coord if op.get("neg") else ts.coord_of(c), **kw)]
            exp = [("cell", c["x"], c["y"])]
            if c["y"] >= H or c["x"] >= (len(tv.rows[c["y"]]) if c["y"] < H else 0):
                feats.append("outside")
        elif g == "get_value":
            c = op["c"]
            v = t.get_value(neg_coord if op.get("neg") else ts.coord_of(c))
            objs = []
            outside = c["y"] >= H or c["x"] >= len(tv.rows[c["y"]])
            if outside:
                feats.append("outside")
                if v is not None:
                    vs.append(Violation("C08", "outside", name, feats, None, f"get_value outside the populated area returned {v!r}"))
        elif g == "row_reports":
            y = op["y"]
            objs = []
            ans = (t.get_row_values(y), t.is_row_empty(y), t.get_row_sub_elements(y))
            if y >= H:
                feats.append("outside")
                if ts.norm(ans[0]) != [None] * W or ans[1] is not True:
                    vs.append(Violation("C08", "outside", name, feats, None, f"a row past the end reports values {ans[0]!r}, empty={ans[1]!r}"))
        elif g == "outside_live":
            x, y = op["x"], op["y"]
            feats.append("outside")
            c1 = t.get_cell((x, y), clone=False)
            c2 = t.get_cell((x + 1, y), clone=False)
            if c1 is c2:
                vs.append(Violation("C08", "aliased-sibling", name, feats, None, f"two reads of different empty positions ({x},{y}) and ({x + 1},{y}) returned the same object"))
                return vs
            if (c1.x, c1.y) != (x, y) or (c2.x, c2.y) != (x + 1, y):
                vs.append(Violation("C08", "coords", name, feats, None, f"cells read at ({x},{y}) and ({x + 1},{y}) carry ({c1.x},{c1.y}) and ({c2.x},{c2.y})"))
                return vs
            c1.set_value(op["v"])
            c3 = t.get_cell((x + 2, y))
            r2 = Row()
            c4 = r2.get_cell(3)
            if c3.get_value() is not None or c4.get_value() is not None or c2.get_value() is not None:
                vs.append(Violation("C08", "aliased-sibling", name, feats, None, "after a value was set on a cell read (clone=False) from an empty position, other empty positions are no longer empty"))
                return vs
            objs = []
        elif g == "get_row":
            kw_live = {"clone": False} if op.get("live") else {}
            objs = [t.get_row(neg_y if op.get("neg") else op["y"], **kw_live)]
            exp = [("row", None, op["y"])]
            if op["y"] >= H:
                feats.append("outside")
            if op.get("live"):
                feats.append("clone_false")
        elif g in ("row_get_cell", "row_traverse", "row_cells", "row_get_cells"):
            y = op["y"]
            row = t.get_row(neg_y if op.get("neg") else y)
            row_before = row.serialize()  # (the row is itself a copy: what its getters hand out must be copies of ITS cells)
            rw = len(tv.rows[y]) if y < H else 0
            if y >= H:
                feats.append("outside")
            if g == "row_get_cell":
                ax, mx = neg(op["x"], rw)
                op["x"] = mx
                objs = [row.get_cell(ax)]
                exp = [("cell", op["x"], y)]
                if op["x"] >= rw:
                    feats.append("outside")
            else:
                a, b = op.get("start"), op.get("end")
                if g == "row_traverse":
                    objs = list(row.traverse(a, b)) if a is not None else list(row.traverse())
                elif g == "row_cells":
                    objs = list(row.cells)
                    a = b = None
                else:
                    objs = row.get_cells((a, b)) if a is not None else row.get_cells()
                lo = a or 0
                hi = rw - 1 if b is None else min(b, rw - 1)
                exp = [("cell", x, y) for x in range(lo, hi + 1)]
        elif g in ("get_cells", "cells"):
            area = op.get("area")
            if g == "cells":
                res = t.cells
                area = None
            else:
                res = t.get_cells(ts.area_of(area)) if area else t.get_cells()
            objs = _flat(res)
            if area:
                x0, y0, x1, y1 = area["a"]
            else:
                x0, y0, x1, y1 = 0, 0, 10**9, 10**9
            for y in range(y0, min(y1, H - 1) + 1):
                rw = len(tv.rows[y])
                for x in range(x0, min(x1, rw - 1) + 1):
                    exp.append(("cell", x, y))
        elif g in ("get_rows", "rows", "traverse"):
            if g == "rows":
                objs = list(t.rows)
                y0, y1 = 0, 10**9
            elif g == "get_rows":
                area = op.get("area")
                objs = t.get_rows(ts.area_of(area)) if area else t.get_rows()
                y0, y1 = (area["a"][1], area["a"][3]) if area else (0, 10**9)
            else:
                a, b = op.get("start"), op.get("end")
                objs = list(t.traverse(a, b)) if a is not None else list(t.traverse())
                y0, y1 = (a, b) if a is not None else (0, 10**9)
            exp = [("row", None, y) for y in range(y0, min(y1, H - 1) + 1)]
        elif g == "get_column":
            objs = [t.get_column(neg_x if op.get("neg") else op["x"])]
            exp = [("col", op["x"], None)]
            if op["x"] >= W:
                feats.append("outside")
        elif g in ("get_columns", "traverse_columns", "columns"):
            a, b = op.get("start"), op.get("end")
            if g == "columns":
                objs = list(t.columns)
                a = b = None
            elif g == "get_columns":
                objs = t.get_columns()
                a = b = None
            else:
                objs = list(t.traverse_columns(a, b)) if a is not None else list(t.traverse_columns())
            lo = a or 0
            hi = W - 1 if b is None else min(b, W - 1)
            exp = [("col", x, None) for x in range(lo, hi + 1)]
        elif g == "get_column_cells":
            flt = op.get("filter")
            kw = {}
            if flt == "cell_type_all":
                kw = {"cell_type": "all", "complete": True}
            elif flt == "cell_type_float":
                kw = {"cell_type": "float", "complete": True}
            elif flt == "content":
                kw = {"content": r"[0-9s]", "complete": True}
            elif flt == "style":
                kw = {"style": "ce1", "complete": True}
            res = t.get_column_cells(neg_x if op.get("neg") else op["x"], **kw)
            if flt and len(res) != H:
                vs.append(Violation("C08", "count", name, feats, None, f"{len(res)} items returned with complete=True, table height {H}"))
                return vs
            exp_all = [("cell", op["x"], y) for y in range(H)]
            objs = [o for o in res if o is not None]
            exp = [e for o, e in zip(res, exp_all) if o is not None]
            if op["x"] >= W:
                feats.append("outside")
        else:
            raise ValueError(g)
    except Exception as e:
        if "outside" in feats:
            return vs + [Violation("C08", "outside", name, feats, type(e).__name__, f"reading outside the populated area raised {type(e).__name__}: {e}")]
        # a getter that raises inside the table is C01's business
        eng.stats.probe("probe_getter_raised")
        eng.resync()
        return vs
    eng.stats.probe("probe:" + g)
    if "outside" in feats:
        eng.stats.probe("probe_outside")
    # (iv) reading does not grow the table
    if t.size != before_size or t.serialize() != before_xml:
        vs.append(Violation("C08", "read-changed-table", name, feats, None, f"size {before_size} -> {t.size}"))
        return vs
    # (i) coordinates
    if len(objs) != len(exp):
        vs.append(Violation("C08", "count", name, feats, None, f"{len(objs)} objects returned, {len(exp)} expected for {op}"))
        return vs
    for o, (kind, x, y) in zip(objs, exp):
        if o is None:
            vs.append(Violation("C08", "coords", name, feats, None, "None returned"))
            return vs
        if kind == "cell" and (o.x != x or o.y != y):
            vs.append(Violation("C08", "coords", name, feats, None, f"cell read at ({x},{y}) carries x={o.x} y={o.y}"))
            return vs
        if kind == "row" and o.y != y:
            vs.append(Violation("C08", "coords", name, feats, None, f"row read at y={y} carries y={o.y}"))
            return vs
        if kind == "col" and o.x != x:
            vs.append(Violation("C08", "coords", name, feats, None, f"column read at x={x} carries x={o.x}"))
            return vs
    # (i') ... and is the item that lives at those coordinates (value / style as an
    # independent reader of the XML sees them)
    for o, (kind, x, y) in zip(objs, exp):
        try:
            if kind == "cell":
                want = tv.rows[y][x] if y < H and x < len(tv.rows[y]) else None
                if want is not None and not want.nchild > 1:
                    got_v, got_s = ts.norm(o.get_value()), o.style
                    if got_v != ts.norm(want.value) or got_s != want.style:
                        vs.append(Violation("C08", "wrong-item", name, feats, None, f"cell read at ({x},{y}) holds {got_v!r}@{got_s}, the table has {want!r} there"))
                        return vs
            elif kind == "row" and y < H:
                want = [ts.norm(c.value) for c in tv.rows[y]]
                got = ts.norm(o.get_values())
                if got != want:
                    vs.append(Violation("C08", "wrong-item", name, feats, None, f"row read at y={y} holds {got!r}, the table has {want!r} there"))
                    return vs
            elif kind == "col" and x < W:
                if (o.style, o.default_cell_style) != tuple(tv.cols[x]):
                    vs.append(Violation("C08", "wrong-item", name, feats, None, f"column read at x={x} is styled {(o.style, o.default_cell_style)}, the table declares {tuple(tv.cols[x])} there"))
                    return vs
        except Exception as e:
            vs.append(Violation("C08", "returned-object-unreadable", name, feats, type(e).__name__, f"{type(e).__name__}: {e}"))
            return vs
    # (ii) expanded reads carry no repeat count
    if g in EXPANDING or (g == "get_cell" and op.get("keep_repeated") is False):
        for o, (kind, x, y) in zip(objs, exp):
            if o.repeated is not None:
                vs.append(Violation("C08", "repeat-kept", name, feats, None, f"{kind} at x={x} y={y} returned by an expanding read carries repeated={o.repeated}"))
                return vs
    # (iv) outside: empty objects
    if "outside" in feats and objs:
        o = objs[0]
        if isinstance(o, Cell) and o.get_value() is not None:
            vs.append(Violation("C08", "outside", name, feats, None, "cell outside the populated area is not empty"))
            return vs
        if isinstance(o, Row) and g == "get_row" and o.width != 0:
            vs.append(Violation("C08", "outside", name, feats, None, "row outside the table is not empty"))
            return vs
    if not objs:
        return vs
    # (iii) mutate one returned object, re-inspect the table and the others
    i = op["which"] % len(objs)
    target = objs[i]
    others = [(j, o.serialize()) for j, o in enumerate(objs) if j != i and o is not target]
    mut = op["mut"]
    try:
        if isinstance(target, Cell):
            if mut in ("set_value", "row_set_value", "append_cell"):
                target.set_value(op["v"])
            elif mut == "style":
                target.style = "probe_style"
            elif mut == "repeated":
                target.repeated = op["k"]
            else:
                target.clear()
        elif isinstance(target, Row):
            if mut in ("set_value", "row_set_value"):
                target.set_value(0, op["v"])
            elif mut == "append_cell":
                target.append_cell(Cell(op["v"]))
            elif mut == "style":
                target.style = "probe_style"
            elif mut == "repeated":
                target.repeated = op["k"]
            else:
                target.clear()
        elif isinstance(target, Column):
            if mut == "repeated":
                target.repeated = op["k"]
            elif mut == "clear":
                target.clear()
            else:
                target.style = "probe_style"
    except Exception as e:
        eng.stats.probe("probe_mutation_raised")
        # mutating a returned copy must be possible, but what the mutator does
        # with odd arguments is not C08's business
        eng.resync()
        return vs
    eng.stats.probe("probe_mutated:" + type(target).__name__)
    if g in DOCUMENTED_COPY and not op.get("live"):
        after = t.serialize()
        if g in ("row_traverse", "row_get_cell") and row.serialize() != row_before:
            return vs + [Violation("C08", "aliased", name, feats + ["row_level"], None, f"mutating ({mut}) the cell returned for {exp[i]} changed the row it was read from")]
        if after != before_xml:
            f2 = list(feats)
            kind, x, y = exp[i]
            if kind == "row" and y is not None and y < H:
                rn, _ = tv.row_run_info(y)
                f2.append("row_unrepeated" if rn == 1 else "row_repeated")
            vs.append(Violation("C08", "aliased", name, f2, None, f"mutating ({mut}) the object returned for {exp[i]} changed the table"))
            return vs
        for j, ser in others:
            if objs[j].serialize() != ser:
                vs.append(Violation("C08", "aliased-sibling", name, feats, None, f"mutating returned object {i} changed returned object {j}"))
                return vs
    else:
        # no copy promise: whatever happened, continue from a coherent state
        if t.serialize() != before_xml:
            eng.stats.probe("probe_live_object_changed_table")
            eng.resync()
    return vs
