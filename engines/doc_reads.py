"""C15 — reading, searching and exporting a document never changes it.

A curated allow-list of entry points whose docstrings describe them as
reporting only (getters, searches, text / CSV / Markdown / RST export, string
conversion, style listings, metadata export, replace() without replacement,
serialisation).  Each is a (name, callable(doc) -> answer) pair; the engine
calls it, calls it again, and compares all parts of the document before and
after (DESIGN §6 C15).
"""
from __future__ import annotations


def _ser(x, depth=0):
    """plain-data form of an answer, for 'calling twice gives the same answer'"""
    if x is None or isinstance(x, (bool, int, float, str, bytes)):
        return x
    if hasattr(x, "serialize") and callable(x.serialize):
        try:
            s = x.serialize()
            return s if isinstance(s, (str, bytes)) else repr(s)
        except Exception:
            return repr(type(x))
    if isinstance(x, dict):
        return {str(k): _ser(v, depth + 1) for k, v in sorted(x.items(), key=lambda kv: str(kv[0]))}
    if isinstance(x, (list, tuple, set, frozenset)) or hasattr(x, "__next__"):
        if depth > 6:
            return "..."
        return [_ser(i, depth + 1) for i in list(x)[:400]]
    return repr(x) if not repr(x).startswith("<") else type(x).__name__


def _tables(doc):
    return [t for t in doc.body.get_tables() if t.height <= 200 and t.width <= 60][:4]


def _first(doc, getter, n=3):
    return getattr(doc.body, getter)()[:n]


def entry_points():
    E = []

    def add(name, fn):
        E.append((name, fn))

    # ---- Document
    add("doc.get_formatted_text", lambda d: d.get_formatted_text())
    add("doc.get_formatted_text(rst)", lambda d: d.get_formatted_text(rst_mode=True))
    add("str(doc)", lambda d: str(d))
    add("doc.to_markdown", lambda d: d.to_markdown())
    add("doc.get_formated_meta", lambda d: d.get_formated_meta())
    add("doc.show_styles", lambda d: d.show_styles())
    add("doc.show_styles(properties)", lambda d: d.show_styles(properties=True))
    add("doc.show_styles(automatic=False)", lambda d: d.show_styles(automatic=False))
    add("doc.get_styles", lambda d: d.get_styles())
    add("doc.get_styles(paragraph)", lambda d: d.get_styles("paragraph"))
    add("doc.get_style(paragraph)", lambda d: d.get_style("paragraph"))
    add("doc.get_style(paragraph,Standard)", lambda d: d.get_style("paragraph", "Standard"))
    add("doc.get_styled_elements", lambda d: len(d.get_styled_elements()))
    add("doc.get_parts", lambda d: sorted(d.get_parts()))
    add("doc.get_type", lambda d: (d.get_type(), d.mimetype))
    add("doc.path/repr", lambda d: repr(d))
    # ---- Meta
    add("meta.as_dict", lambda d: d.meta.as_dict())
    add("meta.as_dict(full)", lambda d: d.meta.as_dict(True))
    add("meta.as_text", lambda d: d.meta.as_text())
    add("meta.as_json", lambda d: d.meta.as_json())
    add("meta.as_json(full)", lambda d: d.meta.as_json(True))
    add("meta.getters", lambda d: (d.meta.title, d.meta.description, d.meta.subject, d.meta.language, d.meta.creation_date, d.meta.date, d.meta.creator,
                                   d.meta.initial_creator, d.meta.keyword, d.meta.editing_duration, d.meta.editing_cycles, d.meta.generator, d.meta.statistic,
                                   d.meta.user_defined_metadata))
    add("meta.get_user_defined_metadata", lambda d: d.meta.get_user_defined_metadata())
    add("meta.serialize", lambda d: d.meta.serialize())
    add("meta.serialize(pretty)", lambda d: d.meta.serialize(pretty=True))
    add("content.serialize(pretty)", lambda d: d.content.serialize(pretty=True))
    add("styles.pretty_serialize", lambda d: d.styles.pretty_serialize())
    add("manifest.get_paths", lambda d: d.manifest.get_paths())
    add("manifest.get_path_medias", lambda d: d.manifest.get_path_medias())
    add("manifest.get_media_type", lambda d: d.manifest.get_media_type("content.xml"))
    # ---- Body / Element getters and searches
    # (get_variable_decls / get_user_field_decls are documented "Created if not found":
    #  not reporting calls, not in the list)
    for g in ("get_paragraphs", "get_headers", "get_tables", "get_images", "get_frames", "get_links", "get_notes", "get_lists", "get_bookmarks",
              "get_sections", "get_spans", "get_variable_decl_list", "get_user_field_decl_list", "get_tocs", "get_annotations", "get_draw_pages",
              "get_reference_marks", "get_references", "get_user_defined_list", "get_variable_sets", "get_text_changes", "get_named_ranges",
              "get_draw_lines", "get_draw_rectangles", "get_draw_ellipses", "get_draw_connectors", "get_orphan_draw_connectors", "get_office_names"):
        add("body." + g, (lambda g: lambda d: getattr(d.body, g)())(g))
    add("body.get_tracked_changes", lambda d: d.body.get_tracked_changes())
    add("body.get_variable_set_value", lambda d: [d.body.get_variable_set_value(v.name) for v in d.body.get_variable_sets()[:4]])
    add("body.get_user_field_value", lambda d: [d.body.get_user_field_value(v.name) for v in d.body.get_user_field_decl_list()[:4]])
    add("named ranges: values", lambda d: [(nr.name, nr.table_name, nr.crange, nr.start, nr.end, nr.usage) for nr in d.body.get_named_ranges()])
    add("paragraphs: formatted twice", lambda d: [(p.get_formatted_text(), p.get_formatted_text()) for p in _first(d, "get_paragraphs", 8)])
    add("headers: formatted twice", lambda d: [(h.get_formatted_text(), h.get_formatted_text()) for h in _first(d, "get_headers", 4)])
    add("notes: formatted", lambda d: [n.get_formatted_text() for n in _first(d, "get_notes", 6)])
    add("body.get_paragraphs(content)", lambda d: d.body.get_paragraphs(content="a"))
    add("body.get_paragraphs(style)", lambda d: d.body.get_paragraphs(style="Standard"))
    add("body.get_paragraph(0)", lambda d: d.body.get_paragraph(position=0))
    add("body.get_header(0)", lambda d: d.body.get_header(position=0))
    add("body.children", lambda d: d.body.children)
    add("body.search", lambda d: d.body.search("e"))
    add("body.search_first", lambda d: d.body.search_first("[a-z]+"))
    add("body.search_all", lambda d: d.body.search_all("a"))
    add("body.match", lambda d: d.body.match("the"))
    add("body.text_at", lambda d: d.body.text_at(0, 20))
    add("body.replace(count only)", lambda d: d.body.replace("e"))
    add("body.replace(count only, formatted)", lambda d: d.body.replace(" +", formatted=True))
    add("body.text_recursive", lambda d: d.body.text_recursive)
    add("body.inner_text", lambda d: d.body.inner_text)
    add("str(body)", lambda d: str(d.body))
    add("body.serialize", lambda d: d.body.serialize())
    add("body.serialize(pretty)", lambda d: d.body.serialize(pretty=True))
    add("body.get_formatted_text", lambda d: d.body.get_formatted_text())
    add("body.xpath", lambda d: d.body.xpath("//text:p"))
    add("body.get_elements", lambda d: d.body.get_elements("descendant::text:span"))
    add("body.attributes/tag/tail", lambda d: (d.body.attributes, d.body.tag, d.body.tail, d.body.text))
    add("content.get_styles", lambda d: d.content.get_styles())
    add("styles.get_master_pages", lambda d: d.styles.get_master_pages())
    # ---- paragraphs, headers, lists, frames, notes, tocs
    add("paragraphs: str/inner_text/formatted", lambda d: [(str(p), p.inner_text, p.get_formatted_text(), p.text_recursive) for p in _first(d, "get_paragraphs", 6)])
    add("paragraphs: search/spans/links", lambda d: [(p.search("a"), p.search_all("e"), p.get_spans(), p.get_links(), p.replace("a")) for p in _first(d, "get_paragraphs", 6)])
    add("headers: str/formatted", lambda d: [(str(h), h.get_formatted_text(), h.level, h.inner_text) for h in _first(d, "get_headers", 6)])
    add("lists: str/items", lambda d: [(str(x), x.get_items(), x.get_formatted_text()) for x in _first(d, "get_lists", 4)])
    add("lists: str twice", lambda d: [(str(x), str(x)) for x in _first(d, "get_lists", 4)])
    add("frames: str/props", lambda d: [(str(f), f.name, f.size, f.position, f.get_formatted_text()) for f in _first(d, "get_frames", 4)])
    add("notes: str/body", lambda d: [(str(n), n.note_body, n.citation, n.get_formatted_text()) for n in _first(d, "get_notes", 4)])
    add("tocs: formatted", lambda d: [(t.get_formatted_text(), str(t), t.outline_level) for t in _first(d, "get_tocs", 2)])
    add("links/spans: str", lambda d: [str(x) for x in _first(d, "get_links", 4) + _first(d, "get_spans", 4)])
    add("draw_pages: str", lambda d: [(str(p), p.get_formatted_text()) for p in _first(d, "get_draw_pages", 3)])
    # ---- tables
    add("tables: size/values", lambda d: [(t.size, t.get_values(), t.name) for t in _tables(d)])
    add("tables: to_csv", lambda d: [t.to_csv() for t in _tables(d)])
    add("tables: str", lambda d: [str(t) for t in _tables(d)])
    add("tables: get_formatted_text", lambda d: [t.get_formatted_text() for t in _tables(d)])
    add("tables: get_formatted_text(rst)", lambda d: [t.get_formatted_text({"rst_mode": True, "no_img_level": 0, "document": d, "footnotes": [], "endnotes": [], "annotations": [], "img_counter": 0, "images": []}) for t in _tables(d)])
    add("tables: cells/rows/columns", lambda d: [(t.get_cells(), t.get_rows(), t.get_columns(), t.get_column_values(0), t.get_row_values(0)) for t in _tables(d)])
    add("tables: traverse", lambda d: [[list(r.traverse()) for r in t.traverse()] for t in _tables(d)])
    add("tables: is_empty/iter_values", lambda d: [(t.is_empty(), list(t.iter_values()), t.get_value((0, 0)), t.get_cell((1, 1)), t.is_row_empty(0), t.is_column_empty(0)) for t in _tables(d)])
    add("tables: get_values(filters)", lambda d: [(t.get_values(cell_type="all"), t.get_values(get_type=True), t.get_values(flat=True), t.get_cells(cell_type="float", flat=True)) for t in _tables(d)])
    add("tables: named ranges/width", lambda d: [(t.get_named_ranges(), t.width, t.height, t.style, t.printable, t.print_ranges) for t in _tables(d)])
    # area reads starting in every column (a slice may begin on the first, a middle or the last cell of a run)
    def area_sweep(d):
        out = []
        for t in _tables(d):
            w, h = t.size
            for x in range(min(w, 12)):
                for z in (x, x + 2):
                    out.append((t.get_values((x, 0, z, min(h, 6))), t.get_cells((x, 0, z, min(h, 2))), list(t.iter_values((x, 0, z, min(h, 3))))))
            for r in t.get_rows()[:4]:
                for x in range(min(r.width, 12)):
                    out.append((r.get_values((x, x + 1)), r.get_cells((x, x + 2))))
        return out

    add("tables: area sweep", area_sweep)
    # questions about rows / cells at and past the end of the table
    add("tables: reads past the end", lambda d: [(t.get_row_values(t.height), t.get_row_values(t.height + 2), t.is_row_empty(t.height + 1), t.get_row_sub_elements(t.height),
                                                  t.get_value((t.width + 1, t.height + 1)), t.get_cell((0, t.height)).get_value(), t.get_row(t.height + 3).get_values(),
                                                  t.get_column_values(t.width + 1), t.is_column_empty(t.width), t.size) for t in _tables(d)])

    # the same questions to ONE Table object in two orders: the answer to a question must not depend on
    # which questions came before it
    def interleaved(d):
        out = []
        for t in _tables(d):
            h = t.height
            ys = list(range(min(h, 10)))
            up = {y: (t.get_row_values(y), t.get_value((0, y)), t.is_row_empty(y), t.get_row(y).get_values()) for y in ys}
            down = {y: (t.get_row_values(y), t.get_value((0, y)), t.is_row_empty(y), t.get_row(y).get_values()) for y in reversed(ys)}
            again = {y: (t.get_row_values(y), t.get_value((0, y)), t.is_row_empty(y), t.get_row(y).get_values()) for y in ys[1::2] + ys[0::2]}
            if not (_ser(up) == _ser(down) == _ser(again)):
                bad = [y for y in ys if not (_ser(up[y]) == _ser(down[y]) == _ser(again[y]))]
                return {"__inconsistent__": f"table {t.name!r}: the answers for rows {bad[:4]} depend on the order in which the rows were asked for"}
            out.append(up)
        return out

    add("tables: same reads, other order", interleaved)
    # what lies between paired marks
    add("reference marks: referenced", lambda d: [(r.name, r.referenced_text(), r.get_referenced(), r.get_referenced(as_list=True), r.get_referenced(as_xml=True), r.get_referenced(no_header=True, clean=False))
                                                  for r in d.body.get_reference_mark_starts()[:6]])
    add("annotations: annotated", lambda d: [(a.name, a.get_annotated(), a.get_annotated(as_text=True), a.get_annotated(no_header=True, clean=True)) for a in d.body.get_annotations()[:6]])
    add("tracked changes: inserted/deleted", lambda d: [(c.get_id(), c.get_change_info(), c.get_inserted(), c.get_inserted(as_text=True), c.get_deleted(), c.get_deleted(as_text=True))
                                                        for c in (d.body.get_tracked_changes().get_changed_regions() if d.body.get_tracked_changes() is not None else [])[:8]])
    add("rows/cells: values", lambda d: [[(r.get_values(), r.width, r.is_empty(), [c.get_value() for c in r.get_cells()][:5]) for r in t.get_rows()[:5]] for t in _tables(d)])
    return E


ENTRY_POINTS = entry_points()
ENTRY_NAMES = [n for n, _ in ENTRY_POINTS]
ENTRY = dict(ENTRY_POINTS)


def md_canary():
    """the process-global Markdown export context, summarised WITHOUT touching it
    (any export of another document would reset it and hide what we look for):
    which document it points to (none / some), how many list counters, foot- and
    endnotes it holds.  A reporting call must leave it as it was at import time."""
    import odfdo.mixin_md as mm

    g = mm.MD_GLOBAL
    # only what is observable later is judged: a context still pointing to a document
    # makes the string conversions of numbered lists count on from call to call. (The
    # list counters themselves also move on the unchanged tree, without visible effect
    # as long as no document is set: not judged.)
    return ("document-set" if g.get("document") is not None else "no-document",)
