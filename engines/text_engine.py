"""Engine P — paragraphs, headings, spans, table of contents (C05, C09, C20;
DESIGN §5.3).

Only *schedule of operations + restart* exists here (no clock, no I/O except
the save/reopen restart of C20): a seeded history of appends / markup
insertions / removals / TOC fills is applied to the real elements next to a
plain Python string (C05, C09) or an outline list (C20); after every step an
independent lxml-only reader (simkit/xmlref.py) projects the XML back to text
and is compared with the model.
"""
from __future__ import annotations

import hashlib
import io
import os
import re

from lxml import etree

from simkit import xmlref
from simkit.kernel import HarnessError, Violation

ALPHABET = ["a", "b", "Z", " ", " ", " ", "\t", "\n", "<", ">", "&", '"', "'", "é", "漢", "\U0001F600", "x1", "  ", "   ",
            "\u00a0", "\u202f", "\u3000", "\u2003",  # NBSP & co: white space for Python's \s, plain characters for ODF
            "\u2028", "\u0085", "\u2029", "\u2028 "]  # line boundaries for str.splitlines(), plain characters for XML 1.0 / ODF
WORDS = ["alpha", "beta", "gamma", "delta", "le", "chat", "Ab", "x", "été", "漢字", "10\u00a0000", "n\u202fo", "全\u3000角"]


def lx(el):
    return el._Element__element


def text_nodes(root):
    """all descendant text nodes, document order (lxml smart strings)"""
    return [t for t in root.xpath("descendant::text()")]


def concat_nodes(root):
    return "".join(str(t) for t in text_nodes(root))


def chars_before(root, target):
    """number of characters of descendant text nodes that precede element `target`"""
    n = 0

    def walk(e):
        nonlocal n
        if e is target:
            return True
        if e.text:
            n += len(e.text)
        for c in e:
            if walk(c):
                return True
            if c.tail:
                n += len(c.tail)
        return False

    if walk(root):
        return n - (0 if True else 0)
    return None


NOTE_TAGS = (xmlref.X_NOTE, xmlref.X_ANNOT)


def has_notes(root):
    return any(True for _ in root.iter(*NOTE_TAGS))


class TextEngine:
    name = "P"

    # ------------------------------------------------------------------ cfg
    @classmethod
    def gen_cfg(cls, rng, prop, tier):
        deep = tier == "thorough"
        cfg = {"max_steps": rng.choice([3, 4, 6, 8, 10, 14] + ([20, 30] if deep else []), "max_steps")}
        cfg["ws_density"] = rng.choice([0.2, 0.4, 0.6] + ([0.8] if deep else []), "ws_density")
        cfg["max_len"] = rng.choice([4, 8, 12, 24] + ([40] if deep else []), "max_len")
        cfg["p_restart"] = rng.choice([0.0, 0.1, 0.25], "p_restart")
        if prop == "C20":
            cfg["max_steps"] = rng.choice([4, 6, 8, 12, 16, 20], "max_steps20")
            cfg["max_level"] = rng.choice([2, 3, 5, 10], "max_level")
        return cfg

    def __init__(self, prop, cfg, stats):
        self.prop = prop
        self.cfg = cfg
        self.stats = stats
        self.el = None  # C05/C09: the paragraph-like element
        self.kind = None
        self.model = ""  # C05: the string
        self.counter = 0
        self._outcome = ""
        self.n_ops = 0
        self.n_ws = 0
        self.n_restart = 0
        self.doc = None  # C20
        self.deleted_notes = []  # C09: note objects deleted from the paragraph (may be inserted again)
        self.host = None  # C05: the paragraph the element under test sits in (or None)
        self.host_model = None
        self.n_fill = 0
        self.n_marks = 0

    def close(self):
        pass

    def outcome(self):
        return self._outcome

    def state_digest(self):
        try:
            if self.prop == "C20":
                data = self.doc.body.serialize() if self.doc is not None else ""
            else:
                data = self.el.serialize() if self.el is not None else ""
        except Exception:
            data = "?"
        return hashlib.sha1(data.encode()).hexdigest()[:16]

    def nontrivial(self):
        if self.prop == "C05":
            return self.n_ops >= 2 and self.n_ws >= 1
        if self.prop == "C09":
            return self.n_marks >= 2
        return self.n_fill >= 1 and self.n_ops >= 3

    # ------------------------------------------------------------ generators
    def _string(self, rng, maxlen=None):
        n = rng.randint(0, maxlen or self.cfg["max_len"], "slen")
        out = []
        for _ in range(n):
            if rng.chance(self.cfg["ws_density"], "ws?"):
                out.append(rng.choice([" ", " ", "  ", "\t", "\n", "   "], "ws"))
            else:
                out.append(rng.choice(ALPHABET, "ch"))
        if self.prop == "C05" and rng.chance(0.004, "longrun"):
            # a very long run of blanks (text:c beyond 16 bits), rarely: the encoding has no length limit
            out.insert(rng.randint(0, len(out), "longrun_at"), " " * rng.choice([65536, 65540, 70001], "longrun_n"))
        return "".join(out)

    def _sentence(self, rng):
        k = rng.randint(1, 6, "nwords")
        parts = []
        for i in range(k):
            parts.append(rng.choice(WORDS, "word"))
            if i < k - 1:
                parts.append(rng.choice([" ", " ", " ", "  ", "\t", "\n", " - ", " \t ", " \n "], "sep"))
        s = "".join(parts)
        if rng.chance(0.15, "lead"):
            s = " " + s
        if rng.chance(0.15, "trail"):
            s = s + rng.choice([" ", "  "], "trailws")
        return s

    def gen_init(self, rng):
        if self.prop == "C05":
            op = {"op": "init", "kind": rng.choice(["Paragraph", "Paragraph", "Header", "Span"], "kind")}
            op["text"] = self._string(rng) if rng.chance(0.6, "init_text") else ""
            if rng.chance(0.3, "hosted"):
                # the element lives inside a host paragraph, between other text, and is
                # reached through the host (children / get_spans): appends to it must leave
                # the text around it alone
                op["kind"] = "Span"
                op["host"] = {"pre": rng.choice(["", "pre", "pre "], "hpre"), "post": rng.choice(["post", " post", "", "x"], "hpost")}
            return op
        if self.prop == "C09":
            op = {"op": "init", "kind": rng.choice(["Paragraph", "Paragraph", "Header"], "kind"), "text": self._sentence(rng)}
            if rng.chance(0.35, "fromxml"):
                op["from_xml"] = True  # parsed from XML as another producer wrote it, not built by odfdo
            return op
        return {"op": "init", "toc_at": rng.choice(["first", "none"], "toc_at"), "outline": rng.choice([0, 0, 1, 2, 3, 10], "outline")}

    def gen_op(self, rng):
        if self.prop == "C05":
            if rng.chance(self.cfg["p_restart"], "restart?"):
                op = {"op": "restart"}
                if rng.chance(0.3, "rdoc"):
                    # through a document: saved (plain: pretty=False said explicitly, also for the folder packaging
                    # whose default is pretty) and opened again
                    op["how"] = rng.choice(["doc_zip", "doc_folder_plain"], "rdochow")
                return op
            via = rng.weighted([("append_plain_text", 4), ("append", 4), ("element", 2), ("second_handle", 1.5 if self.host is not None else 0)], "via")
            op = {"op": "append", "chunk": self._string(rng, max(1, self.cfg["max_len"] // 2)), "via": via}
            if via == "element":
                # the same content given as an element: a tab, a line break, n blanks, a span of text
                k = rng.choice(["tab", "lb", "spacer", "span"], "elkind")
                op["el"] = k
                op["chunk"] = {"tab": "\t", "lb": "\n", "spacer": " " * rng.randint(1, 3, "nsp"), "span": rng.choice(WORDS, "spanword")}[k]
            return op
        if self.prop == "C09":
            return self._gen_c09(rng)
        return self._gen_c20(rng)

    # ------------------------------------------------------------------ step
    def step(self, op):
        self.stats.probe("op:" + op["op"] + (":" + op.get("what", "") if op.get("what") else ""))
        if self.prop == "C05":
            return self._step_c05(op)
        if self.prop == "C09":
            return self._step_c09(op)
        return self._step_c20(op)

    def resync(self):
        if self.prop == "C05":
            self.model = xmlref.raw_text(xmlref.reparse(lx(self.el)))
        elif self.prop == "C20":
            self._c20_sync_from_doc()

    def finish(self):
        return []

    # ================================================================== C05
    def _make(self, kind, text):
        from odfdo import Header, Paragraph, Span

        if kind == "Paragraph":
            return Paragraph(text)
        if kind == "Header":
            return Header(1, text)
        return Span(text)

    def _step_c05(self, op):
        from odfdo import Element

        name = op["op"]
        feats = ["kind:" + (self.kind or op.get("kind", "?"))]
        try:
            if name == "init":
                self.kind = op["kind"]
                self.el = self._make(op["kind"], op["text"])
                self.model = op["text"]
                added = op["text"]
                if op.get("host"):
                    from odfdo import Paragraph

                    h = op["host"]
                    self.host = Paragraph(h["pre"])
                    self.host.append(self.el)
                    # what follows the span is its tail in the XML
                    lx(self.el).tail = h["post"] or None
                    self.host_model = (h["pre"], h["post"])
                    self.el = self.host.get_spans()[0]  # reached through the host
            elif name == "append":
                added = op["chunk"]
                via = op["via"]
                if via == "append":
                    self.el.append(added)
                elif via == "element":
                    from odfdo import LineBreak, Spacer, Span, Tab

                    k = op["el"]
                    self.el.append({"tab": Tab, "lb": LineBreak}[k]() if k in ("tab", "lb") else (Spacer(len(added)) if k == "spacer" else Span(added)))
                elif via == "second_handle" and self.host is not None:
                    self.host.get_spans()[0].append_plain_text(added)  # another wrapper of the same element
                else:
                    self.el.append_plain_text(added)
                self.model += added
                self.n_ops += 1
            else:
                added = ""
                how = op.get("how", "xml")
                if self.host is not None:
                    self.host = Element.from_tag(self.host.serialize())
                    self.el = self.host.get_spans()[0]
                elif how in ("doc_zip", "doc_folder_plain") and type(self.el).__name__ in ("Paragraph", "Header"):
                    import shutil as _sh
                    import tempfile as _tf

                    from odfdo import Document

                    d = Document("text")
                    d.body.clear()
                    d.body.append(self.el)
                    feats.append("restart:" + how)
                    if how == "doc_zip":
                        buf = io.BytesIO()
                        d.save(buf, pretty=False)
                        buf.seek(0)
                        d2 = Document(buf)
                        self.el = d2.body.children[0]
                    else:
                        tmp = _tf.mkdtemp(prefix="odfdo-verif-P-", dir="/dev/shm" if os.path.isdir("/dev/shm") else None)
                        try:
                            target = os.path.join(tmp, "p.odt")
                            d.save(target, packaging="folder", pretty=False)
                            d2 = Document(target + ".folder" if os.path.isdir(target + ".folder") else target)
                            self.el = Element.from_tag(d2.body.children[0].serialize())
                        finally:
                            _sh.rmtree(tmp, ignore_errors=True)
                else:
                    self.el = Element.from_tag(self.el.serialize())
                self.n_restart += 1
        except Exception as e:
            self._outcome = name + ":exc"
            return [Violation("C05", "raises", name, feats, type(e).__name__, f"{type(e).__name__}: {e}")]
        if re.search(r"[ \t\n]", added):
            self.n_ws += 1
        m = self.model
        # trigger features
        if self.host is not None:
            feats.append("hosted")
        if name == "append":
            feats.append("via:" + op["via"] + (":" + op["el"] if op.get("el") else ""))
            if added and not added.strip(" "):
                feats.append("chunk_only_spaces")
            if added[:1] == " " and m[: len(m) - len(added)][-1:] == " ":
                feats.append("space_run_split_across_calls")
            if "\n" in added:
                feats.append("chunk_has_newline")
            if "\t" in added:
                feats.append("chunk_has_tab")
        self._outcome = name + ":ok"
        self.stats.transitions.add((name, self.kind, tuple(sorted(feats)), self._ws_class(added)))
        self.stats.states.add(hashlib.sha1(m.encode()).hexdigest()[:12])
        return self._oracle_c05(name, feats)

    @staticmethod
    def _ws_class(s):
        return re.sub(r"[^ \t\n]+", "x", s)[:8]

    def _oracle_c05(self, opname, feats):
        m = self.model
        el = self.el
        try:
            it = el.inner_text
        except Exception as e:
            return [Violation("C05", "inner_text-raises", opname, feats, type(e).__name__, str(e))]
        if it != m:
            return [Violation("C05", "inner_text", opname, feats, None, f"inner_text {it!r} != {m!r}")]
        root = xmlref.reparse(lx(el))
        raw = xmlref.raw_text(root)
        if raw != m:
            return [Violation("C05", "raw-projection", opname, feats, None, f"the XML read without collapsing gives {raw!r}, expected {m!r}")]
        cons = xmlref.odf_text(root)
        if cons != m:
            return [Violation("C05", "not-normal-form", opname, feats, None, f"a consumer applying ODF white-space collapsing reads {cons!r}, expected {m!r}")]
        # strict reading of ODF 1.2 part 1 §6.1.2: trailing character-data blanks are dropped too
        strict = xmlref.odf_text(root, strip_trailing=True)
        if strict != m:
            return [Violation("C05", "not-normal-form-trailing", opname, feats, None, f"character data ends with a blank that a strict consumer drops: {strict!r} vs {m!r}")]
        # through odfdo's own serialise -> parse route
        from odfdo import Element

        try:
            back = Element.from_tag(el.serialize())
            bt = back.inner_text
        except Exception as e:
            return [Violation("C05", "reparse-raises", opname, feats, type(e).__name__, str(e))]
        if bt != m:
            return [Violation("C05", "reparse", opname, feats, None, f"after serialize + from_tag the text is {bt!r}, expected {m!r}")]
        if type(back) is not type(el):
            return [Violation("C05", "reparse-class", opname, feats, None, f"{type(el).__name__} came back as {type(back).__name__}")]
        if self.host is not None:
            want = self.host_model[0] + m + self.host_model[1]
            got = xmlref.raw_text(xmlref.reparse(lx(self.host)))
            if got != want:
                return [Violation("C05", "host-text-changed", opname, feats, None, f"the paragraph holding the element reads {got!r}, expected {want!r}")]
        return []

    # ================================================================== C09
    REGEX_FAMILY = ["word", "class", "w+", "alt", "pair", "nomatch", "space_word", "across_blanks", "across_blanks"]

    def _gen_c09(self, rng):
        root = lx(self.el)
        text = xmlref.raw_text(root)
        words = re.findall(r"\w+", text) or ["zzz"]
        self.counter += 1
        n = self.counter
        if rng.chance(self.cfg["p_restart"], "restart?"):
            return {"op": "restart"}
        what = rng.weighted([("set_span", 5), ("set_link", 3), ("set_bookmark", 4), ("set_reference_mark", 3), ("insert_note", 2), ("insert_annotation", 2),
                             ("remove_spans", 1.5), ("remove_links", 1), ("remove_one", 2), ("delete_mark", 2), ("delete_inline", 1.5), ("append", 1),
                             ("delete_note", 1.5), ("reinsert_note", 2 if self.deleted_notes else 0), ("move_refmark_end", 2), ("insert_copy", 1.5)], "what")
        op = {"op": "markup", "what": what, "n": n}

        def regex():
            fam = rng.choice(self.REGEX_FAMILY, "refam")
            w = rng.choice(words, "reword")
            if fam == "word":
                return re.escape(w)
            if fam == "class":
                return "[a-zé]+"
            if fam == "w+":
                return r"\w+"
            if fam == "alt":
                return re.escape(w) + "|" + re.escape(rng.choice(words, "reword2"))
            if fam == "pair":
                return re.escape(w[:2]) if len(w) >= 2 else re.escape(w)
            if fam == "space_word":
                return " " + re.escape(w)
            if fam == "across_blanks":
                return r"\w+ +\w+"  # two words and the run of blanks between them (one text node, as other producers write it)
            return "qqq9"

        if what in ("set_span", "set_link"):
            if rng.chance(0.55, "byregex"):
                op["regex"] = regex()
            else:
                total = len(concat_nodes(root))
                op["offset"] = rng.choice([0, 1, max(0, total - 1), total, total + 3, rng.randint(0, max(0, total), "off")], "offset")
                op["length"] = rng.choice([0, 1, 2, 3, 5, 50], "length")
        elif what in ("set_bookmark", "set_reference_mark", "insert_annotation"):
            mode = rng.choice(["position", "before", "after", "content", "tuple", "last"], "mode")
            op["mode"] = mode
            total = len(concat_nodes(root))
            if mode == "position":
                op["position"] = rng.choice([0, 1, total, total + 2, rng.randint(0, max(0, total), "pos")], "position")
            elif mode == "tuple":
                a = rng.randint(0, max(0, total), "pa")
                op["position"] = [a, rng.randint(a, max(a, total), "pb")]
            else:
                op["regex"] = regex()
                op["k"] = rng.choice([0, 0, 0, 1, 2], "k") if mode != "last" else -1
            if what == "set_bookmark" and mode in ("position", "before", "after", "last"):
                op["role"] = rng.choice([None, None, "start", "end"], "role")
        elif what == "insert_note":
            op["regex"] = regex()
        elif what == "delete_note":
            op["idx"] = rng.randint(0, 3, "nidx")
        elif what == "reinsert_note":
            op["idx"] = rng.randint(0, 3, "nidx")
            op["where"] = rng.choice(["start", "in_span"], "nwhere")
        elif what == "insert_copy":
            op["idx"] = rng.randint(0, 3, "cidx")
            op["kind"] = rng.choice(["note", "annotation"], "ckind")
            op["regex"] = regex()
        elif what == "move_refmark_end":
            op["idx"] = rng.randint(0, 3, "ridx")
            op["mode"] = rng.choice(["after", "before"], "rmode")
            op["regex"] = regex()
            op["k"] = rng.choice([0, 0, 1], "rk")
        elif what == "remove_one":
            op["kind"] = rng.choice(["span", "link"], "rkind")
            op["idx"] = rng.randint(0, 3, "ridx")
        elif what in ("delete_mark", "delete_inline"):
            op["idx"] = rng.randint(0, 4, "didx")
        elif what == "append":
            op["chunk"] = " " + rng.choice(WORDS, "aw")
        return op

    def _step_c09(self, op):
        from odfdo import Element

        name = op["op"]
        if name == "init":
            self.kind = op["kind"]
            if op.get("from_xml"):
                def enc(t):
                    out = []
                    i = 0
                    while i < len(t):
                        ch = t[i]
                        if ch == "\t":
                            out.append("<text:tab/>")
                        elif ch == "\n":
                            out.append("<text:line-break/>")
                        elif ch == " " and (i == 0 or t[i - 1] == " " or i == len(t) - 1):
                            out.append("<text:s/>")
                        else:
                            out.append(ch.replace("&", "&amp;").replace("<", "&lt;").replace(">", "&gt;"))
                        i += 1
                    return "".join(out)

                tag = "text:h" if op["kind"] == "Header" else "text:p"
                attr = ' text:outline-level="1"' if op["kind"] == "Header" else ""
                self.el = Element.from_tag(f"<{tag}{attr}>{enc(op['text'])}</{tag}>")
                if xmlref.raw_text(lx(self.el)) != op["text"]:
                    raise HarnessError("XML encoder of the harness is wrong")
            else:
                self.el = self._make(op["kind"], op["text"])
            self._outcome = "init"
            return []
        if name == "restart":
            before = xmlref.raw_text(lx(self.el))
            try:
                self.el = Element.from_tag(self.el.serialize())
            except Exception as e:
                return [Violation("C09", "reparse-raises", "restart", [], type(e).__name__, str(e))]
            self.n_restart += 1
            after = xmlref.raw_text(lx(self.el))
            self._outcome = "restart"
            if after != before:
                return [Violation("C09", "text-changed", "restart", [], None, f"{before!r} -> {after!r}")]
            return []
        what = op["what"]
        el = self.el
        root = lx(el)
        pre_xml = etree.tostring(root)
        T = xmlref.raw_text(root)
        nodes = [str(t) for t in text_nodes(root)]
        concat = "".join(nodes)
        noted = has_notes(root)
        feats = ["kind:" + self.kind]
        if noted:
            feats.append("has_notes")
        if any(e.tag == xmlref.q("text:span") for e in root.iter()):
            feats.append("has_spans")
        if any(e.tag in (xmlref.X_S, xmlref.X_TAB, xmlref.X_LB) for e in root.iter()):
            feats.append("has_ws_elements")
        if "  " in concat:
            feats.append("raw_blank_run")  # blanks side by side in the character data (in one text node or across the edge of an inline element): left there by a deletion, or by another producer
        self.n_ops += 1
        handler = getattr(self, "_c09_" + what)
        vs = handler(op, el, root, pre_xml, T, nodes, concat, noted, feats)
        self._outcome = what + ":" + (vs[0].oracle if vs else "ok")
        self.stats.transitions.add((what, op.get("mode"), "regex" if "regex" in op else ("offset" if "offset" in op else "-"), tuple(f for f in feats if f.startswith("has_"))))
        try:
            self.stats.states.add(hashlib.sha1(etree.tostring(lx(self.el))).hexdigest()[:12])
        except Exception:
            pass
        return vs

    # -- helpers
    def _unchanged(self, root, pre_xml):
        return etree.tostring(root) == pre_xml

    def _text_kept(self, what, feats, T):
        now = xmlref.raw_text(lx(self.el))
        if now != T:
            return [Violation("C09", "text-changed", what, feats, None, f"readable text {T!r} became {now!r}")]
        return []

    def _c09_append(self, op, el, root, pre_xml, T, nodes, concat, noted, feats):
        # keeps histories growing; appending after markup is not judged (the statement does not cover it)
        try:
            el.append_plain_text(op["chunk"])
        except Exception:
            pass
        return []

    def _c09_wrap(self, op, el, root, pre_xml, T, nodes, concat, noted, feats, tag, call):
        what = op["what"]
        old = list(root.iter(tag))  # (keeps the lxml proxies alive: identity comparison below is sound)
        expected = None
        if "regex" in op:
            feats = feats + ["by_regex"]
            pat = re.compile(op["regex"])
            expected = [m.group() for nd in nodes for m in pat.finditer(nd)]
            if not expected:
                feats.append("no_match")
        else:
            feats = feats + ["by_offset"]
            off, ln = op["offset"], op["length"]
            cum = 0
            expected = []
            for nd in nodes:
                if len(nd) + cum <= off:
                    cum += len(nd)
                    continue
                start = off - cum
                L = min(ln, len(nd)) if ln > 0 else len(nd)
                expected = [nd[start:start + L]]
                if start == 0:
                    feats.append("offset_on_node_boundary")
                if start + L > len(nd):
                    feats.append("length_clipped_to_node")
                break
            if not expected:
                feats.append("no_match")
        try:
            call()
        except Exception as e:
            if not self._unchanged(root, pre_xml):
                return [Violation("C09", "raised-after-partial-modification", what, feats, type(e).__name__, f"{type(e).__name__}: {e}")]
            self.stats.probe("markup_raised_unchanged")
            if expected:
                return [Violation("C09", "raises", what, feats, type(e).__name__, f"{type(e).__name__}: {e}")]
            return []
        vs = self._text_kept(what, feats, T)
        if vs:
            return vs
        new = [e for e in root.iter(tag) if all(e is not o for o in old)]
        got = [xmlref.raw_text(e) for e in new]
        if not expected:
            if not self._unchanged(root, pre_xml):
                return [Violation("C09", "no-match-but-modified", what, feats, None, "nothing was designated but the paragraph changed")]
            return []
        self.n_marks += 1
        if sorted(got) != sorted(expected):
            return [Violation("C09", "wrapped-wrong-substring", what, feats, None, f"wrapped {got!r}, designated {expected!r}")]
        return []

    def _c09_set_span(self, op, el, root, pre_xml, T, nodes, concat, noted, feats):
        kw = {"regex": op["regex"]} if "regex" in op else {"offset": op["offset"], "length": op["length"]}
        return self._c09_wrap(op, el, root, pre_xml, T, nodes, concat, noted, feats, xmlref.q("text:span"), lambda: el.set_span(f"S{op['n']}", **kw))

    def _c09_set_link(self, op, el, root, pre_xml, T, nodes, concat, noted, feats):
        kw = {"regex": op["regex"]} if "regex" in op else {"offset": op["offset"], "length": op["length"]}
        return self._c09_wrap(op, el, root, pre_xml, T, nodes, concat, noted, feats, xmlref.q("text:a"), lambda: el.set_link(f"http://example.com/{op['n']}", **kw))

    def _designated_offsets(self, op, nodes):
        """where the documentation puts the mark(s), as character offsets in the
        concatenation of the text nodes; None = nothing designated"""
        mode = op["mode"]
        total = sum(len(n) for n in nodes)
        if mode == "position":
            p = op["position"]
            if not nodes or p > total:
                return None
            return [p]
        if mode == "tuple":
            a, b = op["position"]
            if not nodes or a > total or b > total:
                return None
            return [a, b]
        pat = re.compile(op["regex"])
        spans = []
        cum = 0
        for nd in nodes:
            for m in pat.finditer(nd):
                spans.append((cum + m.start(), cum + m.end()))
            cum += len(nd)
        if not spans:
            return None
        k = op["k"]
        if k == -1:
            # position=-1: the last matching text node, its last match
            s = spans[-1]
        else:
            if k >= len(spans):
                return None
            s = spans[k]
        if mode in ("before",):
            return [s[0]]
        if mode in ("after", "last"):
            return [s[1]]
        return [s[0], s[1]]  # content

    def _c09_mark(self, op, el, root, pre_xml, T, nodes, concat, noted, feats, tags, call):
        what = op["what"]
        want = self._designated_offsets(op, nodes)
        feats = feats + ["mode:" + op["mode"]]
        if want is None:
            feats.append("no_match")
        old = [e for e in root.iter(*tags)]
        try:
            call()
        except Exception as e:
            if not self._unchanged(root, pre_xml):
                return [Violation("C09", "raised-after-partial-modification", what, feats, type(e).__name__, f"{type(e).__name__}: {e}")]
            self.stats.probe("markup_raised_unchanged")
            if want is not None and not noted:
                return [Violation("C09", "raises", what, feats, type(e).__name__, f"{type(e).__name__}: {e}")]
            return []
        vs = self._text_kept(what, feats, T)
        if vs:
            return vs
        if want is None:
            if not self._unchanged(root, pre_xml):
                # position-only marks beyond the text are appended at the end ("position=-1") by design only for negative positions
                return [Violation("C09", "no-match-but-modified", what, feats, None, "nothing was designated but the paragraph changed")]
            return []
        self.n_marks += 1
        new = [e for e in root.iter(*tags) if all(e is not o for o in old)]
        if len(new) != len(want):
            return [Violation("C09", "mark-count", what, feats, None, f"{len(new)} new mark elements, {len(want)} designated places")]
        if noted:
            return []  # positions count characters of note/annotation bodies too: not judged once they exist
        got = [chars_before(root, e) for e in new]
        # the inserted annotation itself carries text (creator, date, body): discount it for marks after it
        if sorted(got) != sorted(want) and not any(e.tag == xmlref.X_ANNOT for e in new):
            return [Violation("C09", "mark-misplaced", what, feats, None, f"marks sit after {got} characters, designated {want} (text {concat!r})")]
        if any(e.tag == xmlref.X_ANNOT for e in new):
            a = [e for e in new if e.tag == xmlref.X_ANNOT][0]
            if chars_before(root, a) != want[0]:
                return [Violation("C09", "mark-misplaced", what, feats, None, f"annotation sits after {chars_before(root, a)} characters, designated {want[0]}")]
        return []

    def _mark_kwargs(self, op):
        mode = op["mode"]
        if mode == "position":
            return {"position": op["position"]}
        if mode == "tuple":
            return {"position": tuple(op["position"])}
        if mode == "before":
            return {"before": op["regex"], "position": op["k"]}
        if mode == "after":
            return {"after": op["regex"], "position": op["k"]}
        if mode == "last":
            return {"after": op["regex"], "position": -1}
        return {"content": op["regex"], "position": op["k"]}

    def _c09_set_bookmark(self, op, el, root, pre_xml, T, nodes, concat, noted, feats):
        kw = self._mark_kwargs(op)
        if op.get("role") and op["mode"] in ("position", "before", "after", "last"):
            kw["role"] = op["role"]
        tags = (xmlref.q("text:bookmark"), xmlref.q("text:bookmark-start"), xmlref.q("text:bookmark-end"))
        return self._c09_mark(op, el, root, pre_xml, T, nodes, concat, noted, feats, tags, lambda: el.set_bookmark(f"bm{op['n']}", **kw))

    def _c09_set_reference_mark(self, op, el, root, pre_xml, T, nodes, concat, noted, feats):
        kw = self._mark_kwargs(op)
        tags = (xmlref.q("text:reference-mark"), xmlref.q("text:reference-mark-start"), xmlref.q("text:reference-mark-end"))
        return self._c09_mark(op, el, root, pre_xml, T, nodes, concat, noted, feats, tags, lambda: el.set_reference_mark(f"rm{op['n']}", **kw))

    def _c09_insert_annotation(self, op, el, root, pre_xml, T, nodes, concat, noted, feats):
        kw = self._mark_kwargs(op)
        tags = (xmlref.X_ANNOT, xmlref.X_ANNOT_END)
        return self._c09_mark(op, el, root, pre_xml, T, nodes, concat, noted, feats, tags, lambda: el.insert_annotation(body=f"annot {op['n']}", creator="sim", date=__import__("datetime").datetime(2024, 1, 2, 3, 4, 5), **kw))  # (explicit date: no real clock in a run)

    def _c09_insert_note(self, op, el, root, pre_xml, T, nodes, concat, noted, feats):
        op2 = dict(op, mode="after", k=0)
        tags = (xmlref.X_NOTE,)
        return self._c09_mark(op2, el, root, pre_xml, T, nodes, concat, noted, feats, tags,
                              lambda: el.insert_note(after=op["regex"], note_id=f"n{op['n']}", citation=str(op["n"]), body=f"note body {op['n']}"))

    def _c09_delete_note(self, op, el, root, pre_xml, T, nodes, concat, noted, feats):
        notes = el.get_notes()
        if not notes:
            return []
        target = notes[op["idx"] % len(notes)]
        try:
            target.delete()
        except Exception as e:
            return [Violation("C09", "raises", "delete_note", feats, type(e).__name__, str(e))]
        self.deleted_notes.append(target)
        return self._text_kept("delete_note", feats, T)

    def _c09_reinsert_note(self, op, el, root, pre_xml, T, nodes, concat, noted, feats):
        """a note object taken out earlier is put back (insert_note(note_element=...))"""
        if not self.deleted_notes:
            return []
        note = self.deleted_notes.pop(op["idx"] % len(self.deleted_notes))
        feats = feats + ["reinserted_element", "where:" + op["where"]]
        try:
            if op["where"] == "in_span" and el.get_spans():
                el.insert_note(note_element=note, after=el.get_spans()[0])
            else:
                el.insert_note(note_element=note)
        except Exception as e:
            if not self._unchanged(root, pre_xml):
                return [Violation("C09", "raised-after-partial-modification", "reinsert_note", feats, type(e).__name__, f"{type(e).__name__}: {e}")]
            return []
        self.n_marks += 1
        return self._text_kept("reinsert_note", feats, T)

    def _c09_insert_copy(self, op, el, root, pre_xml, T, nodes, concat, noted, feats):
        """a COPY (Element.clone) of a note / annotation that sits in the middle of the text is inserted elsewhere
        (insert_note(note_element=...) / insert_annotation(annotation_element=...)): the text stays"""
        src = el.get_elements("descendant::text:note" if op["kind"] == "note" else "descendant::office:annotation")
        if not src:
            return []
        copy = src[op["idx"] % len(src)].clone
        feats = feats + ["copied_element:" + op["kind"]] + (["copy_carries_tail"] if lx(copy).tail else [])
        try:
            if op["kind"] == "note":
                el.insert_note(note_element=copy, after=op["regex"])
            else:
                el.insert_annotation(annotation_element=copy, after=op["regex"])
        except Exception as e:
            if not self._unchanged(root, pre_xml):
                return [Violation("C09", "raised-after-partial-modification", "insert_copy", feats, type(e).__name__, f"{type(e).__name__}: {e}")]
            return []
        self.n_marks += 1
        return self._text_kept("insert_copy", feats, T)

    def _c09_move_refmark_end(self, op, el, root, pre_xml, T, nodes, concat, noted, feats):
        """set_reference_mark_end on an existing range: its end mark moves, the text stays"""
        starts = el.get_elements("descendant::text:reference-mark-start") + el.get_elements("descendant::text:reference-mark")
        if not starts:
            return []
        start = starts[op["idx"] % len(starts)]
        kw = {op["mode"]: op["regex"], "position": op["k"]}
        op2 = dict(op, mode=op["mode"])
        want = self._designated_offsets(op2, nodes)
        feats = feats + ["mode:" + op["mode"]] + (["no_match"] if want is None else [])
        try:
            el.set_reference_mark_end(start, **kw)
        except Exception as e:
            if not self._unchanged(root, pre_xml):
                # (the old end mark is deleted before the new place is searched: judged on the text only)
                vs = self._text_kept("move_refmark_end", feats + ["raised"], T)
                return vs
            return []
        self.n_marks += 1
        return self._text_kept("move_refmark_end", feats, T)

    def _c09_remove_all(self, op, el, root, pre_xml, T, feats, what, call, tag):
        try:
            res = call()
        except Exception as e:
            return [Violation("C09", "raises", what, feats, type(e).__name__, f"{type(e).__name__}: {e}")]
        # (whether the result is the element itself, modified in place, or a copy is not
        #  part of the property - the docstrings say both 'a copy' and 'not a clone')
        if isinstance(res, list):
            got = "".join(xmlref.raw_text(lx(r)) if hasattr(r, "serialize") else str(r) for r in res)
            roots = [lx(r) for r in res if hasattr(r, "serialize")]
        else:
            got = xmlref.raw_text(lx(res))
            roots = [lx(res)]
        if got != T:
            return [Violation("C09", "removal-lost-text", what, feats, None, f"text {T!r} became {got!r}")]
        left = [e for r in roots for e in r.iter(tag)]
        if tag is not None and left and not (self.kind == "Header" and what == "remove_spans"):
            return [Violation("C09", "removal-incomplete", what, feats, None, f"{len(left)} elements left")]
        # continue the history on the stripped copy when it is a single paragraph-like element
        if not isinstance(res, list) and type(res) is type(el):
            self.el = res
        return []

    def _c09_remove_spans(self, op, el, root, pre_xml, T, nodes, concat, noted, feats):
        return self._c09_remove_all(op, el, root, pre_xml, T, feats, "remove_spans", lambda: el.remove_spans(keep_heading=False), xmlref.q("text:span"))

    def _c09_remove_links(self, op, el, root, pre_xml, T, nodes, concat, noted, feats):
        return self._c09_remove_all(op, el, root, pre_xml, T, feats, "remove_links", lambda: el.remove_links(), xmlref.q("text:a"))

    def _c09_remove_one(self, op, el, root, pre_xml, T, nodes, concat, noted, feats):
        kind = op["kind"]
        items = el.get_spans() if kind == "span" else el.get_links()
        if not items:
            return []
        target = items[op["idx"] % len(items)]
        feats = feats + ["one:" + kind]
        if any(True for _ in lx(target).iter(xmlref.q("text:span"), xmlref.q("text:a")) if _ is not lx(target)):
            feats.append("nested_inside")
        call = (lambda: el.remove_span(target)) if kind == "span" else (lambda: el.remove_link(target))
        return self._c09_remove_all(op, el, root, pre_xml, T, feats, "remove_" + kind, call, None)

    def _c09_delete_mark(self, op, el, root, pre_xml, T, nodes, concat, noted, feats):
        tags = ("text:bookmark", "text:bookmark-start", "text:bookmark-end", "text:reference-mark", "text:reference-mark-start", "text:reference-mark-end")
        marks = [e for t in tags for e in el.get_elements("descendant::" + t)]
        if not marks:
            return []
        target = marks[op["idx"] % len(marks)]
        try:
            target.delete()
        except Exception as e:
            return [Violation("C09", "raises", "delete_mark", feats, type(e).__name__, str(e))]
        return self._text_kept("delete_mark", feats, T)

    def _c09_delete_inline(self, op, el, root, pre_xml, T, nodes, concat, noted, feats):
        items = el.get_spans() + el.get_links()
        # ... or a white-space element: what stood around it ends up in one text node, blanks side by side
        items += el.get_elements("descendant::text:tab") + el.get_elements("descendant::text:line-break") + el.get_elements("descendant::text:s")
        if not items:
            return []
        target = items[op["idx"] % len(items)]
        # independent expectation: remove that element, keep its tail
        copy = etree.fromstring(pre_xml)
        # the same node in the copy: by child indexes from the root
        idxs = []
        node = lx(target)
        while node is not root and node.getparent() is not None:
            idxs.append(node.getparent().index(node))
            node = node.getparent()
        if node is not root:
            return []
        victim = copy
        for i in reversed(idxs):
            victim = victim[i]
        self.stats.probe("c09_inline_deleted:" + victim.tag.rsplit("}", 1)[-1])
        parent = victim.getparent()
        tail = victim.tail or ""
        prev = victim.getprevious()
        if prev is not None:
            prev.tail = (prev.tail or "") + tail
        else:
            parent.text = (parent.text or "") + tail
        parent.remove(victim)
        want = xmlref.raw_text(copy)
        try:
            target.delete()
        except Exception as e:
            return [Violation("C09", "raises", "delete_inline", feats, type(e).__name__, str(e))]
        got = xmlref.raw_text(lx(self.el))
        if got != want:
            return [Violation("C09", "delete-lost-text", "delete_inline", feats, None, f"after deleting the inline element the text is {got!r}, expected {want!r}")]
        return []

    # ================================================================== C20
    def _gen_c20(self, rng):
        self.counter += 1
        n = self.counter
        H = len(self.headings)
        if rng.chance(self.cfg["p_restart"], "restart?"):
            return {"op": "restart", "how": rng.choice(["xml", "xml_short", "doc", "doc_pretty"], "rhow")}
        what = rng.weighted([("add_heading", 8), ("insert_heading", 3), ("delete_heading", 2 if H else 0), ("retitle", 2 if H else 0), ("relevel", 2 if H else 0),
                             ("add_para", 2), ("set_outline", 2 if self.tocs else 0), ("add_toc", 2 if len(self.tocs) < 2 else 0), ("move_toc", 1 if self.tocs else 0),
                             ("style_title", 1.5 if self.tocs else 0), ("fill", 6 if self.tocs else 0), ("fill_twice", 3 if self.tocs else 0),
                             ("toc_to_other_doc", 0.7 if self.tocs else 0)], "what20")
        op = {"op": what, "n": n}
        if what in ("set_outline", "move_toc", "style_title", "fill", "fill_twice", "toc_to_other_doc"):
            op["ti"] = rng.randint(0, len(self.tocs) - 1, "ti")
        if what in ("add_heading", "insert_heading"):
            op["level"] = rng.randint(1, self.cfg.get("max_level", 3), "level")
            op["text"] = self._heading_text(rng, n)
            if rng.chance(0.2, "lvlform"):
                op["level_form"] = rng.choice(["float", "str", "bool_or_int"], "lvlformkind")  # Header(2.0, ...), Header("2", ...)
            elif rng.chance(0.15, "hxml"):
                # a heading as read from a file (not built by odfdo's text helpers), with no-break / narrow / ideographic spaces
                op["from_xml"] = True
                op["text"] = rng.choice(["Chapitre\u00a01\u00a0: d\u00e9but", "n\u202fo 5", "\u5168\u3000\u89d2", "thin\u2009space"], "hxmltext") + f" {n}"
            if rng.chance(0.2, "hspan"):
                op["span"] = True
            if rng.chance(0.25, "hmark"):
                # marks that carry no text of their own: a reference / bookmark range around a word, or a point mark
                op["mark"] = rng.choice(["refrange", "refpoint", "bookrange", "bookpoint"], "hmarkkind")
            if what == "insert_heading":
                op["at"] = rng.randint(0, H, "hat")
        elif what in ("delete_heading", "retitle", "relevel"):
            op["idx"] = rng.randint(0, H - 1, "hidx")
            if what == "retitle":
                op["text"] = self._heading_text(rng, n)
            if what == "relevel":
                op["level"] = rng.randint(1, self.cfg.get("max_level", 3), "level")
        elif what == "set_outline":
            op["outline"] = rng.choice([0, 1, 2, 3, 5, 10], "outline")
        elif what == "add_toc":
            op["outline"] = rng.choice([0, 0, 1, 2, 3, 10], "outline")
            op["at"] = rng.choice(["first", "last"], "tocat")
        elif what == "move_toc":
            op["at"] = rng.choice(["first", "last"], "tocat")
        elif what == "style_title":
            op["title"] = rng.choice(["Contents", "Table  des matières", "Index"], "ttitle") + f" {n}"
            op["style"] = rng.choice([None, "Sect1"], "tstyle")
            op["text_style"] = rng.choice([None, "Contents_20_Heading", "MyTitle"], "ttstyle")
        elif what in ("fill", "fill_twice"):
            op["via"] = rng.choice(["attached", "document_arg"], "fillvia")
            op["default_styles"] = rng.chance(0.7, "defstyles")
        return op

    def _heading_text(self, rng, n):
        base = rng.choice(["Title", "Chapter  two", "A\tB", "Part", "Über uns", "x"], "hbase")
        return f"{base} {n}"

    def _c20_sync_from_doc(self):
        body = lx(self.doc.body)
        self.headings = []
        for h in body.iter(xmlref.X_H):
            if any(a.tag == xmlref.q("text:table-of-content") for a in h.iterancestors()):
                continue
            try:
                lvl = int(h.get(xmlref.q("text:outline-level")) or 0)
            except ValueError:
                lvl = 0
            self.headings.append((lvl, xmlref.raw_text(h)))

    def _step_c20(self, op):
        from odfdo import TOC, Document, Header, Paragraph

        name = op["op"]
        feats = []
        if name == "init":
            self.doc = Document("text")
            self.doc.body.clear()
            self.headings = []
            self.tocs = []  # one dict per TOC, in document order: {"outline": int, "title": str}
            if op["toc_at"] == "first":
                toc = TOC(outline_level=op["outline"])
                self.doc.body.append(toc)
                self.tocs.append({"outline": op["outline"], "title": "Table of Contents"})
            self._outcome = "init"
            return []
        body = self.doc.body
        self.n_ops += 1

        def heading_elements():
            return [h for h in body.get_headers() if not any(a.tag == xmlref.q("text:table-of-content") for a in lx(h).iterancestors())]

        def toc_el(i=None):
            tocs = body.get_tocs()
            i = op.get("ti", 0) if i is None else i
            return tocs[i] if i < len(tocs) else None

        try:
            if name in ("add_heading", "insert_heading"):
                lf = op.get("level_form")
                lvl_arg = float(op["level"]) if lf == "float" else (str(op["level"]) if lf == "str" else (True if (lf == "bool_or_int" and op["level"] == 1) else op["level"]))
                if op.get("from_xml"):
                    from odfdo import Element as _El

                    h = _El.from_tag('<text:h text:outline-level="%d">%s</text:h>' % (op["level"], op["text"]))
                    feats.append("heading_from_xml")
                else:
                    h = Header(lvl_arg, op["text"])
                if op.get("span"):
                    h.set_span("T1", regex=r"\w+")
                mk = op.get("mark")
                if mk == "refrange":
                    h.set_reference_mark(f"ref{op['n']}", content=r"\w+")
                elif mk == "refpoint":
                    h.set_reference_mark(f"ref{op['n']}", position=1)
                elif mk == "bookrange":
                    h.set_bookmark(f"bk{op['n']}", content=r"\w+")
                elif mk == "bookpoint":
                    h.set_bookmark(f"bk{op['n']}", position=1)
                if mk:
                    feats.append("heading_with_" + mk)
                text = xmlref.raw_text(lx(h))
                if name == "add_heading":
                    body.append(h)
                    self.headings.append((op["level"], text))
                else:
                    hs = heading_elements()
                    at = min(op["at"], len(hs))
                    if at >= len(hs):
                        body.append(h)
                    else:
                        ref = hs[at]
                        body.insert(h, position=body.index(ref))
                    self.headings.insert(at, (op["level"], text))
            elif name == "delete_heading":
                hs = heading_elements()
                if hs:
                    i = op["idx"] % len(hs)
                    body.delete(hs[i])
                    del self.headings[i]
            elif name == "retitle":
                hs = heading_elements()
                if hs:
                    i = op["idx"] % len(hs)
                    hs[i].clear()
                    hs[i].level = self.headings[i][0]
                    hs[i].append_plain_text(op["text"])
                    self.headings[i] = (self.headings[i][0], op["text"])
            elif name == "relevel":
                hs = heading_elements()
                if hs:
                    i = op["idx"] % len(hs)
                    hs[i].level = op["level"]
                    self.headings[i] = (op["level"], self.headings[i][1])
            elif name == "add_para":
                body.append(Paragraph(f"text {op['n']}"))
            elif name == "set_outline":
                t = toc_el()
                if t is not None and op.get("ti", 0) < len(self.tocs):
                    t.outline_level = op["outline"]
                    self.tocs[op.get("ti", 0)]["outline"] = op["outline"]
            elif name == "add_toc":
                if len(self.tocs) < 2:
                    toc = TOC(outline_level=op["outline"])
                    rec = {"outline": op["outline"], "title": "Table of Contents"}
                    if op["at"] == "first":
                        body.insert(toc, position=0)
                        self.tocs.insert(0, rec)
                    else:
                        body.append(toc)
                        self.tocs.append(rec)
            elif name == "move_toc":
                t = toc_el()
                i = op.get("ti", 0)
                if t is not None and i < len(self.tocs):
                    body.delete(t)
                    rec = self.tocs.pop(i)
                    if op["at"] == "first":
                        body.insert(t, position=0)
                        self.tocs.insert(0, rec)
                    else:
                        body.append(t)
                        self.tocs.append(rec)
            elif name == "style_title":
                t = toc_el()
                i = op.get("ti", 0)
                if t is not None and i < len(self.tocs):
                    kw = {}
                    if op.get("style"):
                        kw["style"] = op["style"]
                    if op.get("text_style"):
                        kw["text_style"] = op["text_style"]
                    t.set_toc_title(op["title"], **kw)
                    self.tocs[i]["title"] = op["title"]
            elif name == "restart":
                if op.get("how") in ("doc", "doc_pretty"):
                    buf = io.BytesIO()
                    self.doc.save(buf, pretty=(op.get("how") == "doc_pretty"))
                    buf.seek(0)
                    self.doc = Document(buf)
                else:
                    data = self.doc.content.serialize()
                    # (the part can be named by its file name or by the documented short name)
                    self.doc.set_part("content" if op.get("how") == "xml_short" else "content.xml", data)
                self.n_restart += 1
                body = self.doc.body
                if op.get("how") == "doc_pretty":
                    # a pretty save may add white space inside headings (known C11 finding): the
                    # outline model continues from the headings as the reloaded document has them
                    self._c20_sync_from_doc()
            elif name == "toc_to_other_doc":
                # one TOC object, filled here, then moved into ANOTHER document and filled there: it lists that document
                t = toc_el()
                i = op.get("ti", 0)
                if t is not None and i < len(self.tocs):
                    t.fill()
                    d2 = Document("text")
                    d2.body.clear()
                    d2.body.append(Header(1, f"Elsewhere A {op['n']}"))
                    d2.body.append(Header(2, f"Elsewhere B {op['n']}"))
                    d2.body.append(t)  # (moves the element out of this document)
                    del self.tocs[i]
                    t.outline_level = 0
                    t.fill()
                    got = [xmlref.raw_text(p) for p in xmlref.reparse(lx(t)).find(xmlref.q("text:index-body")).iter(xmlref.X_P)
                           if p.getparent().tag != xmlref.q("text:index-title")]
                    want = [f"1. Elsewhere A {op['n']}", f"1.1. Elsewhere B {op['n']}"]
                    if got != want:
                        self._outcome = name + ":wrong-document"
                        return [Violation("C20", "entry-text", name, feats + ["toc_moved_to_another_document"], None, f"the TOC moved into another document and filled there lists {got!r}, that document's headings are {want!r}")]
            elif name in ("fill", "fill_twice"):
                return self._c20_fill(op, toc_el(), feats)
        except Exception as e:
            self._outcome = name + ":exc"
            return [Violation("C20", "raises", name, feats, type(e).__name__, f"{type(e).__name__}: {e}")]
        self._outcome = name + ":ok"
        self.stats.transitions.add((name, op.get("level"), tuple(t["outline"] for t in self.tocs), len(self.headings) > 3))
        self.stats.states.add(hashlib.sha1(repr((self.headings, self.tocs)).encode()).hexdigest()[:12])
        return []

    @staticmethod
    def _outline_numbers(levels):
        """independent outline counter: one number per heading; only what is
        uncontroversial is later asserted for skipped levels"""
        counters = {}
        out = []
        for lvl in levels:
            counters[lvl] = counters.get(lvl, 0) + 1
            for k in [k for k in counters if k > lvl]:
                del counters[k]
            comps = []
            skipped = False
            for k in range(1, lvl + 1):
                if k in counters:
                    comps.append(counters[k])
                else:
                    comps.append(None)  # missing ancestor: digit not judged
                    skipped = True
            out.append((comps, skipped))
        return out

    def _c20_fill(self, op, toc, feats):
        name = op["op"]
        if toc is None:
            return []
        doc = self.doc
        ti = op.get("ti", 0)
        if ti >= len(self.tocs):
            return []
        self.n_fill += 1
        my_outline = self.tocs[ti]["outline"]
        my_title = self.tocs[ti]["title"]
        if len(self.tocs) > 1:
            feats.append("two_tocs")
        pre_title = lx(toc).find(xmlref.q("text:index-body"))
        pre_title = pre_title.find(xmlref.q("text:index-title")) if pre_title is not None else None
        pre_title_c14n = xmlref.c14n(pre_title) if pre_title is not None else None
        kw = {}
        if op.get("via") == "document_arg":
            kw["document"] = doc
        if not op.get("default_styles", True):
            kw["use_default_styles"] = False
        try:
            toc.fill(**kw)
        except Exception as e:
            self._outcome = name + ":exc"
            return [Violation("C20", "raises", name, feats, type(e).__name__, f"{type(e).__name__}: {e}")]
        outline = my_outline or 10
        listed = [(lvl, txt) for lvl, txt in self.headings if 1 <= lvl <= outline]
        levels = [lvl for lvl, _ in listed]
        if any(lvl < 1 for lvl, _ in self.headings):
            feats.append("level_0_heading")
        numbers = self._outline_numbers(levels)
        if any(sk for _, sk in numbers):
            feats.append("skipped_levels")
        if my_outline:
            feats.append("outline_limited")
        root = xmlref.reparse(lx(toc))
        ib = root.find(xmlref.q("text:index-body"))
        if ib is None:
            return [Violation("C20", "no-index-body", name, feats, None, "")]
        entries = []
        title = None
        post_title_c14n = None
        for child in ib:
            if child.tag == xmlref.q("text:index-title"):
                title = " ".join(xmlref.raw_text(p) for p in child.iter(xmlref.X_P))
                post_title_c14n = xmlref.c14n(child)
                continue
            if child.tag == xmlref.X_P:
                entries.append(xmlref.raw_text(child))
            else:
                entries.append("<" + child.tag.rsplit("}", 1)[1] + ">")
        self._outcome = name + ":filled"
        self.stats.transitions.add((name, tuple(levels[:6]), my_outline, op.get("via"), len(self.tocs)))
        if title != my_title:
            return [Violation("C20", "title-lost", name, feats, None, f"title {title!r}, expected {my_title!r}")]
        if pre_title_c14n is not None and post_title_c14n != pre_title_c14n:
            return [Violation("C20", "title-altered", name, feats, None, "the index title element (its styles / markup) is not what it was before fill()")]
        if len(entries) != len(listed):
            return [Violation("C20", "entry-count", name, feats, None, f"{len(entries)} entries for {len(listed)} headings of level <= {outline}: {entries!r}")]
        all_got = []
        for i, (entry, (lvl, txt), (comps, skipped)) in enumerate(zip(entries, listed, numbers)):
            m = re.match(r"^((?:\d+\.)+) (.*)$", entry, re.S)
            if not m:
                return [Violation("C20", "entry-format", name, feats, None, f"entry #{i} {entry!r} is not '<number> <heading text>'")]
            num, rest = m.group(1), m.group(2)
            if rest != txt:
                extra = ["trailing_line_break"] if rest == txt + "\n" else []
                return [Violation("C20", "entry-text", name, feats + extra, None, f"entry #{i} shows {rest!r} after its number, the heading text is {txt!r}")]
            got = [int(x) for x in num.strip(".").split(".")]
            all_got.append(got)
            if len(got) != lvl:
                return [Violation("C20", "entry-number", name, feats, None, f"entry #{i} number {num} has {len(got)} components for a level {lvl} heading")]
            if not any(sk for _, sk in numbers[: i + 1]):
                # no level was skipped so far: the whole number is determined
                if got != comps:
                    return [Violation("C20", "entry-number", name, feats, None, f"entry #{i} is numbered {num}, the outline says {'.'.join(str(x) for x in comps)}. (levels so far {levels[: i + 1]})")]
            else:
                # a level was skipped somewhere before: which digit stands for a missing
                # ancestor (and what it does to later counters of that level) is not
                # asserted; only the relative laws are
                j = next((k for k in range(i - 1, -1, -1) if levels[k] <= lvl), None)
                if j is not None and levels[j] == lvl and got[-1] != all_got[j][-1] + 1:
                    return [Violation("C20", "entry-number", name, feats + ["sibling_increment"], None, f"entry #{i} ({num}) does not follow its previous sibling #{j} ({'.'.join(map(str, all_got[j]))}.) (levels {levels[: i + 1]})")]
                if i > 0 and levels[i - 1] == lvl - 1 and got[-1] != 1:
                    return [Violation("C20", "entry-number", name, feats + ["deeper_reset"], None, f"entry #{i} ({num}) is the first child of #{i - 1} but does not restart at 1 (levels {levels[: i + 1]})")]
        if name == "fill_twice":
            ser = toc.serialize()
            try:
                toc.fill(**kw)
            except Exception as e:
                return [Violation("C20", "raises", name, feats + ["second_fill"], type(e).__name__, str(e))]
            if toc.serialize() != ser:
                return [Violation("C20", "fill-not-idempotent", name, feats, None, "a second fill changed the table of contents")]
        # the same outline is what the heading-listing tool reports
        try:
            import contextlib

            from odfdo.scripts.headers import headers_document

            out = io.StringIO()
            with contextlib.redirect_stdout(out):
                headers_document(doc, outline)
            tool = [ln for ln in out.getvalue().split("\n") if ln != ""]
            mine = [e.rstrip("\n") for e in entries]
            tool_flat = "\n".join(tool)
            if "\n".join(x for e in mine for x in e.split("\n") if x != "") != tool_flat:
                return [Violation("C20", "tool-disagrees", name, feats, None, f"odfdo-headers lists {tool!r}, the TOC {mine!r}")]
        except Exception as e:
            self.stats.probe("headers_tool_raised")
        return []
