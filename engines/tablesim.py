"""Engine T — tables (DESIGN §5.1).

One run = an 'init' op followed by a history of concrete JSON ops.  The real
odfdo Table is stepped one op at a time next to the Grid reference model
(C01) or next to an independent expansion of its own XML (all other table
properties).  Everything an op needs is in its JSON record, so a recorded
history replays without a PRNG.
"""
from __future__ import annotations

import hashlib
import io
import os
from datetime import date, datetime
from decimal import Decimal

from lxml import etree

from simkit import xmlref
from simkit.kernel import Violation
from engines.grid import Grid, Rejects, cell_from_spec, expand_cells

SAMPLES = "/repo/tests/samples"
ODS_SAMPLES = [
    "simple_table.ods",
    "simple_table_named_range.ods",
    "styled_table.ods",
    "test_col_cell.ods",
    "test_col_cell_blue.ods",
    "minimal_hidden.ods",
]


def alpha(x: int) -> str:
    x += 1
    s = ""
    while x:
        s = chr(65 + (x - 1) % 26) + s
        x = (x - 1) // 26
    return s


def norm(v):
    if isinstance(v, bool):
        return ("bool", v)
    if isinstance(v, datetime):
        # date typing is C06/C18's business: a midnight naive datetime and
        # the date are the same observation here
        if v.tzinfo is None and (v.hour, v.minute, v.second, v.microsecond) == (0, 0, 0, 0):
            return ("date", v.year, v.month, v.day)
        return ("datetime", v.isoformat())
    if isinstance(v, date):
        return ("date", v.year, v.month, v.day)
    if isinstance(v, Decimal):
        return ("dec", str(v))
    if isinstance(v, float):
        # a cell holding 0.1 answers Decimal('0.1'), one holding 3.0 answers 3
        return int(v) if v.is_integer() else ("dec", repr(v))
    if isinstance(v, list):
        return [norm(i) for i in v]
    if isinstance(v, tuple):
        return tuple(norm(i) for i in v)
    return v


def first_diff(a, b, path=""):
    """human-readable first difference between two nested observations"""
    if type(a) != type(b) and not (isinstance(a, (list, tuple)) and isinstance(b, (list, tuple))):
        return f"{path}: {a!r} != {b!r}"
    if isinstance(a, dict):
        for k in a:
            if k not in b:
                return f"{path}.{k}: missing on right"
            d = first_diff(a[k], b[k], f"{path}.{k}")
            if d:
                return d
        for k in b:
            if k not in a:
                return f"{path}.{k}: missing on left"
        return None
    if isinstance(a, (list, tuple)):
        if len(a) != len(b):
            return f"{path}: length {len(a)} != {len(b)} ({_short(a)} vs {_short(b)})"
        for i, (x, y) in enumerate(zip(a, b)):
            d = first_diff(x, y, f"{path}[{i}]")
            if d:
                return d
        return None
    if a != b:
        return f"{path}: {a!r} != {b!r}"
    return None


def _short(x, n=160):
    s = repr(x)
    return s if len(s) <= n else s[:n] + "..."


# ---------------------------------------------------------------------------
# XML generation for initial states (independent of odfdo's builders)
# ---------------------------------------------------------------------------


def _esc(s: str) -> str:
    return s.replace("&", "&amp;").replace("<", "&lt;").replace(">", "&gt;").replace('"', "&quot;")


def cell_xml(spec, string_attr=True) -> str:
    spec = spec or {}
    v = spec.get("v")
    attrs = ""
    if spec.get("s"):
        attrs += f' table:style-name="{_esc(spec["s"])}"'
    k = spec.get("r", 1) or 1
    if k > 1:
        attrs += f' table:number-columns-repeated="{k}"'
    tag = "table:covered-table-cell" if spec.get("cov") else "table:table-cell"
    if spec.get("cs"):
        attrs += f' table:number-columns-spanned="{spec["cs"]}" table:number-rows-spanned="{spec.get("rs", 1)}"'
    elif spec.get("rs"):
        # a vertical span written with the rows attribute only (an omitted attribute means 1)
        attrs += f' table:number-rows-spanned="{spec["rs"]}"'
    if spec.get("nested"):
        # a table inside a cell (text documents): its rows and columns are not the outer table's
        return (f'<{tag}{attrs}><table:table table:name="Inner"><table:table-column table:number-columns-repeated="2"/>'
                '<table:table-row><table:table-cell office:value-type="string"><text:p>in1</text:p></table:table-cell><table:table-cell/></table:table-row>'
                '<table:table-row table:number-rows-repeated="2"><table:table-cell office:value-type="string"><text:p>in2</text:p></table:table-cell><table:table-cell/></table:table-row>'
                f'</table:table></{tag}>')
    if v is None:
        return f"<{tag}{attrs}/>"
    if isinstance(v, bool):
        b = "true" if v else "false"
        return f'<{tag}{attrs} office:value-type="boolean" office:boolean-value="{b}"><text:p>{b}</text:p></{tag}>'
    if isinstance(v, (int, float)):
        return f'<{tag}{attrs} office:value-type="float" office:value="{v!r}"><text:p>{v!r}</text:p></{tag}>'
    sv = f' office:string-value="{_esc(v)}"' if string_attr else ""
    return f'<{tag}{attrs} office:value-type="string"{sv}><text:p>{_esc(v)}</text:p></{tag}>'


def table_xml(spec) -> str:
    out = ['<table:table table:name="T">']
    if spec.get("pre_children"):
        # what office suites write before the column declarations (ODF: title?, desc?, ..., office:forms?, table:shapes?)
        out.append('<table:title>A title</table:title><table:desc>described</table:desc>'
                   '<office:forms form:automatic-focus="false" form:apply-design-mode="false"/><table:shapes/>')
    # a valid ODF table declares at least one column and at least as many
    # columns as its widest row: top up (keeps shrunk specs valid inputs)
    cols = list(spec.get("cols", []))
    have = sum((c.get("r", 1) or 1) for c in cols)
    need = max([1] + [sum(((c or {}).get("r", 1) or 1) for c in r.get("cells", [])) for r in spec.get("rows", [])])
    if have < need:
        cols.append({"r": need - have} if need - have > 1 else {})
    colx = []
    for c in cols:
        a = ""
        if c.get("s"):
            a += f' table:style-name="{_esc(c["s"])}"'
        if (c.get("r", 1) or 1) > 1:
            a += f' table:number-columns-repeated="{c["r"]}"'
        colx.append(f"<table:table-column{a}/>")
    if spec.get("wrap_cols") == "columns":
        out.append("<table:table-columns>" + "".join(colx) + "</table:table-columns>")
    elif spec.get("wrap_cols") == "header" and len(colx) > 1:
        out.append("<table:table-header-columns>" + colx[0] + "</table:table-header-columns>" + "".join(colx[1:]))
    else:
        out.extend(colx)
    hdr = spec.get("header_rows", 0)
    rows = []
    for r in spec.get("rows", []):
        a = ""
        if r.get("s"):
            a += f' table:style-name="{_esc(r["s"])}"'
        if (r.get("r", 1) or 1) > 1:
            a += f' table:number-rows-repeated="{r["r"]}"'
        cells = "".join(cell_xml(c, spec.get("string_attr", True)) for c in r.get("cells", []))
        rows.append(f"<table:table-row{a}>{cells}</table:table-row>")
    if hdr and rows:
        out.append("<table:table-header-rows>" + "".join(rows[:hdr]) + "</table:table-header-rows>")
        rows = rows[hdr:]
    out.extend(rows)
    out.append("</table:table>")
    return "".join(out)


# ---------------------------------------------------------------------------
# SUT helpers
# ---------------------------------------------------------------------------


def lx(el):
    """the lxml node behind an odfdo element (read-only use: the durable state)"""
    return el._Element__element


def mk_cell(spec):
    from odfdo import Cell

    if spec is None:
        return None
    c = Cell(spec.get("v"), style=spec.get("s"), repeated=spec.get("r"))
    return c


def mk_row(spec):
    from odfdo import Row

    row = Row()
    how = spec.get("how", "append")
    cells = spec.get("cells", [])
    if how == "extend":
        row.extend_cells([mk_cell(c) for c in cells])
    else:
        for c in cells:
            row.append_cell(mk_cell(c))
    if spec.get("s"):
        row.style = spec["s"]
    k = spec.get("r", 1) or 1
    if k > 1:
        row.repeated = k
    return row


def mk_col(spec):
    from odfdo import Column

    if spec is None:
        return None
    return Column(style=spec.get("s"), repeated=spec.get("r"))


def coord_of(c):
    """render an {x, y, form} coordinate"""
    if c.get("form") == "s":
        return f"{alpha(c['x'])}{c['y'] + 1}"
    return (c["x"], c["y"])


def area_of(a):
    x, y, z, t = a["a"]
    if a.get("form") == "s":
        return f"{alpha(x)}{y + 1}:{alpha(z)}{t + 1}"
    return (x, y, z, t)


def yarg(op, key="y", fkey="yform"):
    y = op[key]
    if op.get(fkey) == "s":
        return str(y + 1)
    return y


def xarg(op, key="x", fkey="xform"):
    x = op[key]
    if op.get(fkey) == "s":
        return alpha(x)
    return x


class TableSUT:
    """The system under test: one odfdo Table, standalone or inside a
    spreadsheet Document."""

    def __init__(self):
        self.table = None
        self.doc = None

    def build(self, init):
        from odfdo import Document, Element, Table

        fam = init["family"]
        if fam == "empty":
            t = Table("T")
        elif fam == "prefilled":
            t = Table("T", width=init["w"], height=init["h"])
        elif fam == "rle":
            t = Element.from_tag(table_xml(init["spec"]))
        elif fam == "sample":
            doc = Document(os.path.join(SAMPLES, init["file"]))
            tables = doc.body.get_tables()
            t = tables[init["index"] % len(tables)]
            if not init.get("attached"):
                t = Element.from_tag(etree.tostring(lx(t), encoding="unicode"))
            else:
                self.doc = doc
                self.table = t
                return
        else:
            raise ValueError(fam)
        if init.get("attached"):
            doc = Document("spreadsheet")
            doc.body.clear()
            doc.body.append(t)
            self.doc = doc
            # the caller works with the table it appended
        self.table = t

    def restart(self, how="xml"):
        """Throw away every wrapper, map and cache; rebuild from the durable
        representation."""
        from odfdo import Document, Element

        if how == "doc" and self.doc is not None:
            pos = self.position()
            if pos is None:
                raise RuntimeError("the table is not in the document body any more")
            buf = io.BytesIO()
            self.doc.save(buf)
            buf.seek(0)
            self.doc = Document(buf)
            self.table = self.doc.body.get_tables()[pos]
        else:
            xml = etree.tostring(lx(self.table), encoding="unicode")
            fresh = Element.from_tag(xml)
            if self.doc is not None:
                # re-attach: replace the node in the body
                body = self.doc.body
                old = self.table
                idx = body.index(old)
                body.delete(old)
                body.insert(fresh, position=idx)
            self.table = fresh

    def replace_from_xml(self, xml):
        from odfdo import Element

        fresh = Element.from_tag(xml)
        if self.doc is not None:
            body = self.doc.body
            old = self.table
            node, parent = lx(old), lx(old).getparent()
            if parent is not None:
                # (at the lxml level: the wrapper of the body may be another one than the table's parent wrapper)
                parent.replace(node, lx(fresh))
            else:
                body.append(fresh)
        self.table = fresh

    def position(self):
        """index of the table among the tables of the document body"""
        for i, t in enumerate(self.doc.body.get_tables()):
            if lx(t) is lx(self.table):
                return i
        return None

    def fresh_copy(self):
        """A table parsed afresh from the serialisation of the live one,
        through odfdo's public route (serialize -> from_tag)."""
        from odfdo import Element

        return Element.from_tag(self.table.serialize())

    def view(self) -> xmlref.TableView:
        return xmlref.table_expand(xmlref.reparse(lx(self.table)))


# ---------------------------------------------------------------------------
# observations (the 'comparison set')
# ---------------------------------------------------------------------------

OBS_WINDOW = 14


def observe_table(t, plan) -> dict:
    """Public reads of a Table, as plain data. `plan` selects what to read."""
    o = {}
    lvl = plan.get("level", "full")
    w, h = t.size
    o["size"] = (w, h)
    o["values"] = norm(t.get_values())
    if "target_row" in plan:
        r = t.get_row(plan["target_row"])
        o["target_row"] = (r.width, norm(r.get_values()), norm(t.get_row_values(plan["target_row"])))
    if lvl == "light":
        return o
    if "area" in plan:
        o["area"] = norm(t.get_values(area_of(plan["area"])))
    rows = []
    for y in range(min(h, OBS_WINDOW) + 1):
        r = t.get_row(y)
        rows.append((r.width, norm(r.get_values())))
    o["rows"] = rows
    single = []
    for y in range(min(h, OBS_WINDOW) + 1):
        line = []
        for x in range(min(w, OBS_WINDOW) + 1):
            line.append(norm(t.get_value((x, y))))
        single.append(line)
    o["single"] = single
    if "col" in plan:
        o["col"] = norm(t.get_column_values(plan["col"]))
    if "row" in plan:
        o["rowv"] = norm(t.get_row_values(plan["row"]))
    o["styles"] = [[c.style for c in row] for row in t.get_cells()]
    o["colstyles"] = [c.style for c in t.get_columns()]
    if plan.get("neg") and w > 0 and h > 0:
        # the same questions through count-from-the-end coordinates (relative to the TABLE's width / height)
        cx, ry = plan.get("col", 0) % w, plan.get("row", 0) % h
        o["neg"] = (norm(t.get_column_values(cx - w)), norm(t.get_row_values(ry - h)), norm(t.get_value((cx - w, ry - h))),
                    norm(t.get_cell((cx - w, ry - h)).get_value()), t.is_column_empty(cx - w), t.is_row_empty(ry - h),
                    norm([c.get_value() if c is not None else None for c in t.get_column_cells(cx - w)]))
    return o


def observe_grid(g: Grid, plan) -> dict:
    o = {}
    lvl = plan.get("level", "full")
    w, h = g.width, g.height
    o["size"] = (w, h)
    o["values"] = norm(g.values())
    if "target_row" in plan:
        rv = g.row_values(plan["target_row"])
        o["target_row"] = (len(rv), norm(rv), norm(g.row_values_padded(plan["target_row"])))
    if lvl == "light":
        return o
    if "area" in plan:
        o["area"] = norm(g.values_area(*plan["area"]["a"]))
    rows = []
    for y in range(min(h, OBS_WINDOW) + 1):
        rv = g.row_values(y)
        rows.append((len(rv), norm(rv)))
    o["rows"] = rows
    single = []
    for y in range(min(h, OBS_WINDOW) + 1):
        line = []
        for x in range(min(w, OBS_WINDOW) + 1):
            line.append(norm(g.cell(x, y).value))
        single.append(line)
    o["single"] = single
    if "col" in plan:
        o["col"] = norm(g.column_values(plan["col"]))
    if "row" in plan:
        o["rowv"] = norm(g.row_values_padded(plan["row"]))
    o["styles"] = g.styles()
    o["colstyles"] = [c[0] for c in g.cols]
    if plan.get("neg") and w > 0 and h > 0:
        cx, ry = plan.get("col", 0) % w, plan.get("row", 0) % h
        colv = g.column_values(cx)
        rowv = g.row_values_padded(ry)
        o["neg"] = (norm(colv), norm(rowv), norm(g.cell(cx, ry).value), norm(g.cell(cx, ry).value),
                    all(g.cell(cx, y).is_empty(False) for y in range(h)), all(g.cell(x, ry).is_empty(False) for x in range(len(g.rows[ry]))),
                    norm(colv))
    return o


# ---------------------------------------------------------------------------
# op application: SUT side and model side
# ---------------------------------------------------------------------------


def apply_row_edits_sut(row, edits):
    for e in edits:
        k = e["e"]
        if k == "rep":
            row.repeated = e["k"]
        elif k == "set_cell":
            row.set_cell(xarg(e), mk_cell(e["cell"]))
        elif k == "set_value":
            row.set_value(xarg(e), e["v"])
        elif k == "insert_cell":
            row.insert_cell(xarg(e), mk_cell(e["cell"]))
        elif k == "append_cell":
            row.append_cell(mk_cell(e["cell"]))
        elif k == "delete_cell":
            row.delete_cell(xarg(e))
        elif k == "set_values":
            row.set_values(e["values"], start=e["start"])
        elif k == "set_cells":
            row.set_cells([mk_cell(c) for c in e["cells"]], start=e["start"])
        elif k == "extend_cells":
            row.extend_cells([mk_cell(c) for c in e["cells"]])
        elif k == "rstrip":
            row.rstrip(aggressive=e.get("aggressive", False))
        elif k == "read":
            row.get_values()
            row.get_cell(e["x"])
            list(row.traverse())
        elif k == "clear":
            row.clear()
        elif k == "force_width":
            row.force_width(e["w"])
        else:
            raise ValueError(k)


def apply_row_edits_model(cells, edits):
    for e in edits:
        k = e["e"]
        if k == "rep":
            pass
        elif k == "set_cell":
            c = e["cell"]
            Grid.row_set_cell(cells, e["x"], cell_from_spec(c), (c or {}).get("r", 1) or 1)
        elif k == "set_value":
            Grid.row_set_cell(cells, e["x"], cell_from_spec({"v": e["v"]}), 1)
        elif k == "insert_cell":
            c = e["cell"]
            Grid.row_insert_cell(cells, e["x"], cell_from_spec(c), (c or {}).get("r", 1) or 1)
        elif k == "append_cell":
            c = e["cell"]
            Grid.row_append_cell(cells, cell_from_spec(c), (c or {}).get("r", 1) or 1)
        elif k == "delete_cell":
            Grid.row_delete_cell(cells, e["x"])
        elif k == "set_values":
            Grid.row_set_values(cells, e["start"], e["values"])
        elif k == "set_cells":
            Grid.row_set_cells(cells, e["start"], e["cells"])
        elif k == "extend_cells":
            cells.extend(expand_cells(e["cells"]))
        elif k == "rstrip":
            Grid.row_rstrip(cells, e.get("aggressive", False))
        elif k == "read":
            pass
        elif k == "clear":
            del cells[:]
        else:
            raise ValueError(k)


def apply_sut(sut: TableSUT, op, aux):
    """Execute one mutation/read op through the public API. `aux` receives
    facts observed on returned objects that the model needs (e.g. the repeat
    count carried by a row copy handed out by get_row)."""
    t = sut.table
    n = op["op"]
    # "again": the very same argument object is passed a second time (only
    # with the default clone=True, which promises that the argument is copied)
    again = op.get("again")
    if n == "set_value":
        t.set_value(coord_of(op["c"]), op["v"], style=op.get("s"))
    elif n == "set_cell":
        cell = mk_cell(op["cell"])
        aux["arg"] = cell
        t.set_cell(coord_of(op["c"]), cell, clone=op.get("clone", True))
        if again:
            t.set_cell(coord_of(again["c"]), cell)
    elif n == "insert_cell":
        cell = mk_cell(op["cell"])
        aux["arg"] = cell
        t.insert_cell(coord_of(op["c"]), cell, clone=op.get("clone", True))
        if again:
            t.insert_cell(coord_of(again["c"]), cell)
    elif n == "append_cell":
        cell = mk_cell(op["cell"])
        aux["arg"] = cell
        t.append_cell(yarg(op), cell, clone=op.get("clone", True))
        if again:
            t.append_cell(again["y"], cell)
    elif n == "delete_cell":
        t.delete_cell(coord_of(op["c"]))
    elif n == "set_row":
        row = mk_row(op["row"]) if op["row"] is not None else None
        aux["arg"] = row
        t.set_row(yarg(op), row, clone=op.get("clone", True))
        if again:
            t.set_row(again["y"], row)
    elif n == "insert_row":
        row = mk_row(op["row"]) if op["row"] is not None else None
        aux["arg"] = row
        t.insert_row(yarg(op), row, clone=op.get("clone", True))
        if again:
            t.insert_row(again["y"], row)
    elif n == "append_row":
        row = mk_row(op["row"]) if op["row"] is not None else None
        aux["arg"] = row
        t.append_row(row, clone=op.get("clone", True))
        if again:
            t.append_row(row)
    elif n == "delete_row":
        t.delete_row(yarg(op))
    elif n == "extend_rows":
        if op.get("how") == "generator":
            t.extend_rows(mk_row(r) for r in op["rows"])  # any iterable of rows is consumed once
        else:
            t.extend_rows([mk_row(r) for r in op["rows"]])
    elif n == "set_row_values":
        t.set_row_values(yarg(op), op["values"])
    elif n == "set_row_cells":
        cells = [mk_cell(c) for c in op["cells"]]
        aux["arg"] = cells
        t.set_row_cells(yarg(op), cells)
        if again:
            t.set_row_cells(again["y"], cells)
    elif n == "set_values":
        t.set_values(op["values"], coord_of(op["c"]) if op.get("c") else None)
    elif n == "set_cells":
        if op.get("share"):
            # every line is the same list of the same Cell objects
            line = [mk_cell(c) for c in op["cells"][0]]
            mat = [line for _ in op["cells"]]
        else:
            mat = [[mk_cell(c) for c in r] for r in op["cells"]]
        aux["arg"] = mat
        t.set_cells(mat, coord_of(op["c"]) if op.get("c") else None)
    elif n == "set_column_values":
        t.set_column_values(xarg(op), op["values"])
    elif n == "set_column_cells":
        t.set_column_cells(xarg(op), [mk_cell(c) for c in op["cells"]])
    elif n in ("insert_column", "append_column", "set_column"):
        col = mk_col(op["col"])
        aux["arg"] = col
        if n == "insert_column":
            t.insert_column(xarg(op), col)
            if again:
                t.insert_column(again["x"], col)
        elif n == "append_column":
            t.append_column(col)
            if again:
                t.append_column(col)
        else:
            t.set_column(xarg(op), col)
            if again:
                t.set_column(again["x"], col)
        if op.get("touch_arg") and col is not None:
            col.style = "late_style"  # the caller goes on using ITS object: the table holds a copy
    elif n == "delete_column":
        t.delete_column(xarg(op))
    elif n == "clear":
        t.clear()
    elif n == "row_edit":
        via = op.get("via", "get_row")
        if via == "get_row":
            row = t.get_row(yarg(op))
        elif via == "get_rows":
            row = t.get_rows()[op["y"]]
        elif via == "rows":
            row = t.rows[op["y"]]
        else:
            row = list(t.traverse())[op["y"]]
        apply_row_edits_sut(row, op["edits"])
        aux["k"] = row.repeated or 1
        push = op["push"]
        if push == "set_row":
            t.set_row(op["at"], row, clone=op.get("clone", True))
        elif push == "insert_row":
            t.insert_row(op["at"], row, clone=op.get("clone", True))
        else:
            t.append_row(row, clone=op.get("clone", True))
    elif n == "cell_edit":
        cell = t.get_cell(coord_of(op["c"]))
        for e in op["edits"]:
            if e["e"] == "rep":
                cell.repeated = e["k"]
            elif e["e"] == "set_value":
                if e.get("via") == "attr":
                    cell.value = e["v"]  # the property setter: same result as set_value()
                else:
                    cell.set_value(e["v"])
            elif e["e"] == "style":
                cell.style = e["s"]
        aux["k"] = cell.repeated or 1
        t.set_cell(coord_of(op["to"]), cell, clone=op.get("clone", True))
    elif n == "pushback":
        if op["kind"] == "cells":
            x, y = op["area"]["a"][:2]
            cells = t.get_cells(area_of(op["area"]))
            t.set_cells(cells, (x, y))
        else:
            # (like get_row, get_column hands out the stored declaration with its repeat count:
            # the copy is pushed back as one column)
            col = t.get_column(xarg(op))
            col.repeated = None
            t.set_column(xarg(op), col)
    elif n == "read":
        do_read(t, op)
    elif n == "restart":
        sut.restart(op.get("how", "xml"))
    if op.get("touch_arg") and n in ("set_cell", "insert_cell", "append_cell", "set_row", "insert_row", "append_row"):
        a = aux.get("arg")
        if a is not None:
            from odfdo import Cell as _Cell

            if isinstance(a, _Cell):
                a.set_value("late change")
            else:
                a.set_value(0, "late change")
        return
    if n in GRID_MUTATIONS or n in ("read", "restart"):
        return
    # ---- ops without grid-model semantics (not used by C01) ----
    if n == "rstrip":
        t.rstrip(aggressive=op.get("aggressive", False))
    elif n == "optimize_width":
        t.optimize_width()
    elif n == "transpose":
        t.transpose(area_of(op["area"]) if op.get("area") else None)
    elif n == "set_span":
        aux["ret"] = t.set_span(area_of(op["area"]), merge=op.get("merge", False))
    elif n == "del_span":
        aux["ret"] = t.del_span(coord_of(op["c"]))
    elif n == "live_row_op":
        if t.height:
            apply_row_edits_sut(t.get_row(op["y"], clone=False), op["edits"])
    elif n == "extend_rows_odd":
        how = op["how"]
        if how == "fails":
            class _Deliberate(Exception):
                pass

            def gen():
                for i, r in enumerate(op["rows"]):
                    if i == op["k"]:
                        raise _Deliberate("iterable failed")
                    yield mk_row(r)
                if op["k"] >= len(op["rows"]):
                    raise _Deliberate("iterable failed")

            try:
                t.extend_rows(gen())
            except _Deliberate:
                aux["caller_caught"] = True  # the caller catches its own exception and carries on
        elif how == "same_object":
            row = mk_row(op["rows"][0])
            t.extend_rows([row] * len(op["rows"]))
        else:
            raise ValueError(how)
    elif n == "held_rows_rep":
        rows = t.get_elements("table:table-row") if op["via"] == "get_elements" else t.get_rows()
        t.append_row(mk_row(op["row"]))
        if rows:
            rows[op["i"] % len(rows)].repeated = op["k"]
    elif n == "live_row_rep_ge":
        # the row ELEMENTS of the table as get_elements() hands them out (they share the table's row map)
        rows = t.get_elements("table:table-row")
        if rows:
            rows[op["i"] % len(rows)].repeated = op["k"]
    elif n == "live_row_rep":
        t.get_row(op["y"], clone=False).repeated = op["k"]
    elif n == "live_cell_rep":
        t.get_cell(coord_of(op["c"]), clone=False).repeated = op["k"]
    else:
        raise ValueError(f"unknown op {n}")


def reapply_with_arg(t, op, arg):
    """the call of `op` once more, on table `t`, with the argument object `arg` of the first call"""
    n = op["op"]
    if n == "set_cell":
        t.set_cell(coord_of(op["c"]), arg)
    elif n == "insert_cell":
        t.insert_cell(coord_of(op["c"]), arg)
    elif n == "append_cell":
        t.append_cell(yarg(op), arg)
    elif n == "set_row":
        t.set_row(yarg(op), arg)
    elif n == "insert_row":
        t.insert_row(yarg(op), arg)
    elif n == "append_row":
        t.append_row(arg)
    elif n == "set_column":
        t.set_column(xarg(op), arg)
    elif n == "insert_column":
        t.insert_column(xarg(op), arg)
    elif n == "append_column":
        t.append_column(arg)
    elif n == "set_row_cells":
        t.set_row_cells(yarg(op), arg)
    elif n == "set_cells":
        t.set_cells(arg, coord_of(op["c"]) if op.get("c") else None)
    else:
        raise ValueError(n)


RAW_MUTATIONS = {"rstrip", "optimize_width", "transpose", "set_span", "del_span", "live_row_rep", "live_cell_rep", "live_row_op", "extend_rows_odd", "live_row_rep_ge", "held_rows_rep"}


def do_read(t, op):
    """cache-warming reads (results are not compared here; the comparison set
    is taken by the oracles)"""
    k = op["kind"]
    if k == "get_row":
        t.get_row(op["y"], clone=op.get("clone", True))
    elif k == "get_cell":
        t.get_cell((op["x"], op["y"]), clone=op.get("clone", True))
    elif k == "get_value":
        t.get_value((op["x"], op["y"]))
    elif k == "traverse":
        for r in t.traverse():
            list(r.traverse())
    elif k == "get_values":
        t.get_values()
    elif k == "get_column":
        t.get_column(op["x"])
    elif k == "columns":
        list(t.traverse_columns())
    elif k == "get_rows":
        t.get_rows()
    elif k == "get_cells":
        t.get_cells()
    elif k == "get_column_cells":
        t.get_column_cells(op["x"])
    elif k == "get_row_values":
        t.get_row_values(op["y"])
    else:
        raise ValueError(k)


def apply_model(g: Grid, op, aux):
    n = op["op"]
    again = op.get("again")
    if n == "set_value":
        g.set_cell(op["c"]["x"], op["c"]["y"], {"v": op["v"], "s": op.get("s")})
    elif n == "set_cell":
        g.set_cell(op["c"]["x"], op["c"]["y"], op["cell"])
        if again:
            g.set_cell(again["c"]["x"], again["c"]["y"], op["cell"])
    elif n == "insert_cell":
        g.insert_cell(op["c"]["x"], op["c"]["y"], op["cell"])
        if again:
            g.insert_cell(again["c"]["x"], again["c"]["y"], op["cell"])
    elif n == "append_cell":
        g.append_cell(op["y"], op["cell"])
        if again:
            g.append_cell(again["y"], op["cell"])
    elif n == "delete_cell":
        g.delete_cell(op["c"]["x"], op["c"]["y"])
    elif n in ("set_row", "insert_row", "append_row"):
        rs = op["row"]
        cells = expand_cells(rs["cells"]) if rs else []
        k = (rs.get("r", 1) or 1) if rs else 1
        if n == "set_row":
            g.set_row(op["y"], cells, k)
            if again:
                g.set_row(again["y"], cells, k)
        elif n == "insert_row":
            g.insert_row(op["y"], cells, k)
            if again:
                g.insert_row(again["y"], cells, k)
        else:
            g.append_row(cells, k)
            if again:
                g.append_row(cells, k)
    elif n == "delete_row":
        g.delete_row(op["y"])
    elif n == "extend_rows":
        g.extend_rows(op["rows"])
    elif n == "set_row_values":
        g.set_row(op["y"], [cell_from_spec({"v": v}) for v in op["values"]], 1)
    elif n == "set_row_cells":
        g.set_row(op["y"], expand_cells(op["cells"]), 1)
        if again:
            g.set_row(again["y"], expand_cells(op["cells"]), 1)
    elif n == "set_values":
        c = op.get("c") or {"x": 0, "y": 0}
        g.set_values(c["x"], c["y"], op["values"])
    elif n == "set_cells":
        c = op.get("c") or {"x": 0, "y": 0}
        g.set_cells(c["x"], c["y"], [op["cells"][0]] * len(op["cells"]) if op.get("share") else op["cells"])
    elif n == "set_column_values":
        g.set_column_cells(op["x"], [{"v": v} for v in op["values"]])
    elif n == "set_column_cells":
        g.set_column_cells(op["x"], op["cells"])
    elif n == "insert_column":
        g.insert_column(op["x"], op["col"])
        if again:
            g.insert_column(again["x"], op["col"])
    elif n == "append_column":
        g.append_column(op["col"])
        if again:
            g.append_column(op["col"])
    elif n == "delete_column":
        g.delete_column(op["x"])
    elif n == "set_column":
        g.set_column(op["x"], op["col"])
        if again:
            g.set_column(again["x"], op["col"])
    elif n == "clear":
        g.clear()
    elif n == "row_edit":
        y = op["y"]
        cells = [c.copy() for c in g.rows[y]] if y < g.height else []
        apply_row_edits_model(cells, op["edits"])
        k = aux.get("k", 1)
        if op["push"] == "set_row":
            g.set_row(op["at"], cells, k)
        elif op["push"] == "insert_row":
            g.insert_row(op["at"], cells, k)
        else:
            g.append_row(cells, k)
    elif n == "cell_edit":
        src = g.cell(op["c"]["x"], op["c"]["y"]).copy()
        for e in op["edits"]:
            if e["e"] == "set_value":
                # Cell.set_value starts from a cleared cell ("Set the cell
                # state from the Python value type"): style goes too
                src = cell_from_spec({"v": e["v"]})
            elif e["e"] == "style":
                src.style = e["s"]
        k = aux.get("k", 1)
        row = g._row_for_edit(op["to"]["y"])
        Grid.row_set_cell(row, op["to"]["x"], src, k)
        g._upd_width(len(row))
    elif n in ("read", "restart", "pushback"):
        # (pushback: copies read from the table are set back where they were read: nothing changes)
        pass
    else:
        raise ValueError(f"unknown op {n}")


GRID_MUTATIONS = {
    "pushback",
    "set_value", "set_cell", "insert_cell", "append_cell", "delete_cell", "set_row", "insert_row",
    "append_row", "delete_row", "extend_rows", "set_row_values", "set_row_cells", "set_values",
    "set_cells", "set_column_values", "set_column_cells", "insert_column", "append_column",
    "delete_column", "set_column", "clear", "row_edit", "cell_edit",
}


# ---------------------------------------------------------------------------
# trigger features (probes, coverage measure, finding signatures)
# ---------------------------------------------------------------------------


def _pos(n, i):
    if n <= 1:
        return None
    if i == 0:
        return "first"
    if i == n - 1:
        return "last"
    return "middle"


def features(op, tv: xmlref.TableView) -> list:
    f = set()
    n = op["op"]
    W, H = tv.width, tv.height

    def row_feats(y, tag="row"):
        if y >= H:
            f.add("y_beyond")
            if y > H:
                f.add("y_gap")
            return
        rn, ri = tv.row_run_info(y)
        if rn > 1:
            f.add(f"{tag}_run")
            f.add(f"{tag}_run_{_pos(rn, ri)}")
        if len(tv.rows[y]) < W:
            f.add("row_short")

    def cell_feats(x, y, k=1):
        row_feats(y)
        if y >= H:
            return
        rw = len(tv.rows[y])
        if x >= rw:
            f.add("x_beyond_row")
            if x > rw:
                f.add("x_gap")
            return
        cn, ci = tv.cell_run_info(x, y)
        if cn > 1:
            f.add("cell_run")
            f.add(f"cell_run_{_pos(cn, ci)}")
        if k > 1:
            if x + k > rw:
                f.add("arg_past_end")
            elif ci + k > cn:
                f.add("arg_overlaps_next_run")

    def col_feats(x):
        if x >= W:
            f.add("x_beyond")
            if x > W:
                f.add("x_gap")
            return
        cn, ci = tv.col_run_info(x)
        if cn > 1:
            f.add("col_run")
            f.add(f"col_run_{_pos(cn, ci)}")
        if any(len(r) <= x for r in tv.rows):
            f.add("some_row_short_of_x")
        if any(len(r) < W for r in tv.rows):
            f.add("some_row_short")

    if op.get("again") or op.get("share"):
        f.add("arg_reused")
    if tv.grouped_rows:
        f.add("has_row_group")
    if tv.grouped_cols:
        f.add("has_col_group")
    if H == 0:
        f.add("no_rows")
    if W == 0:
        f.add("no_cols")
    if n in ("set_value",):
        cell_feats(op["c"]["x"], op["c"]["y"])
    elif n in ("set_cell", "insert_cell"):
        k = (op["cell"] or {}).get("r", 1) or 1
        if k > 1:
            f.add("arg_rep")
        if op["cell"] is None:
            f.add("arg_none")
        cell_feats(op["c"]["x"], op["c"]["y"], k if n == "set_cell" else 1)
    elif n == "append_cell":
        k = (op["cell"] or {}).get("r", 1) or 1
        if k > 1:
            f.add("arg_rep")
        row_feats(op["y"])
    elif n == "delete_cell":
        cell_feats(op["c"]["x"], op["c"]["y"])
    elif n in ("set_row", "insert_row", "append_row"):
        rs = op["row"]
        k = (rs.get("r", 1) or 1) if rs else 1
        if k > 1:
            f.add("arg_rep")
        if rs is None:
            f.add("arg_none")
        elif any(((c or {}).get("r", 1) or 1) > 1 for c in rs["cells"]):
            f.add("arg_cells_rep")
        if rs and len(expand_cells(rs["cells"])) > W:
            f.add("arg_wider")
        if n != "append_row":
            y = op["y"]
            row_feats(y)
            if n == "set_row" and k > 1 and y < H:
                rn, ri = tv.row_run_info(y)
                if y + k > H:
                    f.add("arg_past_end")
                elif ri + k > rn:
                    f.add("arg_overlaps_next_run")
    elif n == "delete_row":
        row_feats(op["y"])
    elif n in ("set_row_values", "set_row_cells"):
        row_feats(op["y"])
        if n == "set_row_cells" and any(((c or {}).get("r", 1) or 1) > 1 for c in op["cells"]):
            f.add("arg_cells_rep")
    elif n in ("set_values", "set_cells"):
        c = op.get("c") or {"x": 0, "y": 0}
        mat = op["values"] if n == "set_values" else op["cells"]
        for i in range(len(mat)):
            cell_feats(c["x"], c["y"] + i)
        if n == "set_cells" and any(((cc or {}).get("r", 1) or 1) > 1 for r in op["cells"] for cc in r):
            f.add("arg_cells_rep")
        if any(not r for r in mat):
            f.add("arg_empty_line")
    elif n in ("set_column_values", "set_column_cells"):
        col_feats(op["x"])
        cnt = len(op["values"] if n == "set_column_values" else op["cells"])
        if cnt != H:
            f.add("len_mismatch")
        if tv.row_runs and max(tv.row_runs) > 1:
            f.add("some_row_run")
        if n == "set_column_cells" and any(((c or {}).get("r", 1) or 1) > 1 for c in op["cells"]):
            f.add("arg_cells_rep")
    elif n in ("insert_column", "delete_column", "set_column"):
        col_feats(op["x"])
        if ((op.get("col") or {}).get("r", 1) or 1) > 1:
            f.add("arg_rep")
        if tv.row_runs and max(tv.row_runs) > 1:
            f.add("some_row_run")
    elif n == "append_column":
        if ((op.get("col") or {}).get("r", 1) or 1) > 1:
            f.add("arg_rep")
    elif n == "row_edit":
        row_feats(op["y"], "src_row")
        if op["push"] != "append_row":
            row_feats(op["at"])
        if any(e["e"] == "rep" and e["k"] > 1 for e in op["edits"]):
            f.add("arg_rep")
        elif not any(e["e"] == "rep" for e in op["edits"]):
            f.add("rep_as_returned")
        f.add("push_" + op["push"])
        if op.get("via"):
            f.add("row_via_" + op["via"])
        if any(e["e"] == "clear" for e in op["edits"]):
            f.add("row_cleared")
    elif n == "cell_edit":
        cell_feats(op["c"]["x"], op["c"]["y"])
        if any(e["e"] == "rep" and e["k"] > 1 for e in op["edits"]):
            f.add("arg_rep")
        elif not any(e["e"] == "rep" for e in op["edits"]):
            f.add("rep_as_returned")
    elif n == "pushback":
        f.add("pushback_" + op["kind"])
        if op["kind"] == "cells":
            x, y, z, t = op["area"]["a"]
            for yy in range(y, min(t, H - 1) + 1):
                cell_feats(x, yy)
        else:
            col_feats(op["x"])
    return sorted(f)


def shape_class(tv: xmlref.TableView) -> str:
    """coarse class of the RLE shape, for the abstract-transition measure"""
    parts = []
    parts.append("H0" if tv.height == 0 else ("H1" if tv.height == 1 else "Hn"))
    parts.append("W0" if tv.width == 0 else ("W1" if tv.width == 1 else "Wn"))
    if any(n > 1 for n in tv.row_runs):
        parts.append("rr")
    if any(n > 1 for n in tv.col_runs):
        parts.append("cr")
    if any(n > 1 for r in tv.cell_runs for n in r):
        parts.append("xr")
    if any(len(r) < tv.width for r in tv.rows):
        parts.append("rag")
    return "".join(parts)


def state_digest(tv: xmlref.TableView) -> str:
    h = hashlib.sha1()
    h.update(repr(tv.shape()).encode())
    h.update(repr([[c.key() for c in r] for r in tv.rows]).encode())
    h.update(repr(tv.cols).encode())
    return h.hexdigest()[:16]
