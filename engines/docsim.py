"""Engine D building blocks — documents, packages (DESIGN §5.2).

DocSUT       the real odfdo Document(s) over the simulated environment
PartStore    reference model: a map  part name -> bytes  with last-writer-wins
             semantics for set_part / del_part / add_file, plus the set of XML
             parts the history has parsed (whose live tree is authoritative)
inspect_*    independent package / manifest inspectors (C03, C04)
"""
from __future__ import annotations

import hashlib
import io
import os
import re
import shutil
import zipfile

from lxml import etree

from simkit import env as simenv
from simkit import xmlref

SAMPLES = "/repo/tests/samples"
TEMPLATES = ["text", "spreadsheet", "presentation", "drawing"]
STD_XML = ["content.xml", "meta.xml", "styles.xml", "settings.xml", "META-INF/manifest.xml"]
SHORT = {"content": "content.xml", "meta": "meta.xml", "styles": "styles.xml", "settings": "settings.xml", "manifest": "META-INF/manifest.xml"}
MANIFEST = "META-INF/manifest.xml"
RDF = "manifest.rdf"

DOC_SAMPLES = [
    "base_md_text.odt", "base_shapes.odg", "base_text.odt", "bookmark.odt", "chair.odt", "chart.odt",
    "dormeur_notes.odt", "example.odp", "example.odt", "frame_image.odp", "issue_28_pretty.odt", "list.odt",
    "lorem.odt", "lpod_styles.odt", "md_fixed.odt", "md_style.odt", "meta.odt", "minimal_hidden.ods", "note.odt",
    "pagebreak.odt", "simple_table.ods", "simple_table_named_range.ods", "span_a.odt", "span_style.odt",
    "styled_table.ods", "table.odt", "test_diff1.odt", "toc.odt", "toc_done.odt", "tracked_changes.odt",
    "user_fields.odt", "variable.odt", "background.odp",
]

_GEN = re.compile(rb"<meta:generator>[^<]*</meta:generator>")


def mask_generator(data: bytes) -> bytes:
    return _GEN.sub(b"<meta:generator>X</meta:generator>", data)


def is_xml_part(name: str) -> bool:
    """the XML parts odfdo parses: the five standard ones and the same names
    inside embedded sub-documents ('Object 1/content.xml')"""
    return name in STD_XML or name.rsplit("/", 1)[-1] in ("content.xml", "styles.xml", "meta.xml", "settings.xml")


def canon(name: str, data: bytes):
    """comparison form of a part: infoset for the standard XML parts (the
    generator stamp removed from meta.xml: Document.save rewrites it), raw
    bytes for everything else"""
    if is_xml_part(name):
        root = etree.fromstring(data)
        if name == "meta.xml":
            for g in list(root.iter(xmlref.q("meta:generator"))):
                parent = g.getparent()
                # keep the white space that followed the element
                prev = g.getprevious()
                if g.tail:
                    if prev is not None:
                        prev.tail = (prev.tail or "") + g.tail
                    else:
                        parent.text = (parent.text or "") + g.tail
                parent.remove(g)
        c = xmlref.c14n(root)
        return ("xml", hashlib.sha1(c).hexdigest(), len(c))
    return ("bin", hashlib.sha1(data).hexdigest(), len(data))


def template_file(kind: str) -> str:
    import odfdo
    from odfdo.const import ODF_TEMPLATES

    return os.path.join(os.path.dirname(odfdo.__file__), "templates", ODF_TEMPLATES[kind])


def leafdirs(names):
    """explicit directory entries that have nothing below them"""
    files = [n for n in names if not n.endswith("/")]
    out = []
    for d in names:
        if d.endswith("/") and not any(f.startswith(d) for f in files) and not any(o != d and o.startswith(d) for o in names):
            out.append(d)
    return out


class PartStore:
    """reference model of the package content"""

    def __init__(self):
        self.base = {}  # name -> bytes (files) ; leaf dirs as name/ -> b""
        self.over = {}  # name -> bytes | None (deleted)
        self.touched = set()  # std XML parts parsed by the history
        self.mimetype = ""

    @classmethod
    def from_package(cls, pk: xmlref.Package) -> "PartStore":
        st = cls()
        for n, d in pk.parts.items():
            st.base[n] = d
        for d in leafdirs(pk.order if pk.kind == "zip" else (list(pk.parts) + pk.dirs)):
            st.base[d] = b""
        st.mimetype = st.base.get("mimetype", b"").decode("utf8", "replace")
        return st

    def names(self):
        out = []
        for n in list(self.base) + [k for k in self.over if k not in self.base]:
            if n in self.over and self.over[n] is None:
                continue
            out.append(n)
        return out

    def current(self, name):
        if name in self.over:
            return self.over[name]
        return self.base.get(name)

    def set_part(self, name, data):
        self.over[name] = data
        self.touched.discard(name)

    def del_part(self, name):
        self.over[name] = None


def live_tree_bytes(part) -> bytes:
    """the in-memory tree of a parsed part, written out by lxml itself (read-only inspection;
    not XmlPart.serialize, which is part of what is judged)"""
    if not hasattr(part, "root"):
        return part if isinstance(part, bytes) else part.serialize()
    root = part.root._Element__element
    return etree.tostring(root.getroottree(), xml_declaration=True, encoding="UTF-8")


def read_expected(doc, store: PartStore) -> dict:
    """the in-memory document right now, as {name: canon}: the live tree for
    parts the history parsed, the stored bytes for the others"""
    exp = {}
    for n in store.names():
        if n in store.touched:
            data = live_tree_bytes(doc.get_part(n))
        else:
            data = store.current(n)
        exp[n] = canon(n, data)
    return exp


def manifest_lists_rdf(doc_or_bytes) -> bool:
    root = etree.fromstring(doc_or_bytes)
    for fe in root.iter(xmlref.q("manifest:file-entry")):
        if fe.get(xmlref.q("manifest:full-path")) == RDF:
            return True
    return False


def compare_package(pk: xmlref.Package, expected: dict, optional=()) -> list:
    """C03: returns a list of (kind, detail). `expected` = {name: canon};
    names in `optional` may be present or not and are not compared"""
    problems = []
    got_names = set(pk.parts) | set(leafdirs(pk.order if pk.kind == "zip" else list(pk.parts) + pk.dirs))
    exp_names = set(expected)
    for n in sorted(exp_names - got_names):
        if n in optional:
            continue
        problems.append(("part-lost", n))
    for n in sorted(got_names - exp_names):
        if n in optional:
            continue
        problems.append(("part-invented", n))
    for n in sorted(exp_names & got_names):
        if n.endswith("/") or n in optional:
            continue
        got = canon(n, pk.parts[n])
        if got != expected[n]:
            problems.append(("part-differs", f"{n}: saved {got[0]} len {got[2]} != in-memory len {expected[n][2]}"))
    return problems


def inspect_odf_zip(pk: xmlref.Package, mimetype: str) -> list:
    """C04: returns a list of (rule, detail)"""
    pr = []
    if not pk.order or pk.order[0] != "mimetype":
        pr.append(("mimetype-not-first", f"first entry is {pk.order[0] if pk.order else None!r}"))
    if "mimetype" in pk.parts:
        if pk.compress.get("mimetype") != zipfile.ZIP_STORED:
            pr.append(("mimetype-compressed", str(pk.compress.get("mimetype"))))
        if pk.parts["mimetype"] != mimetype.encode():
            pr.append(("mimetype-content", f"{pk.parts['mimetype']!r} != {mimetype!r}"))
    else:
        pr.append(("mimetype-missing", ""))
    for d in sorted(set(pk.duplicates)):
        pr.append(("duplicate-entry", d))
    me = pk.manifest_entries()
    if me is None:
        pr.append(("manifest-missing", ""))
        return pr
    listed = [p for p, _ in me]
    root = [m for p, m in me if p == "/"]
    if not root:
        pr.append(("manifest-no-root", ""))
    elif root[0] != mimetype:
        pr.append(("manifest-root-type", f"{root[0]!r} != {mimetype!r}"))
    files = [n for n in pk.parts if n not in ("mimetype", MANIFEST)]
    for n in sorted(files):
        c = listed.count(n)
        if c == 0:
            pr.append(("manifest-unlisted-file", n))
        elif c > 1:
            pr.append(("manifest-duplicate-entry", f"{n} x{c}"))
    for p in sorted(set(listed)):
        if listed.count(p) > 1 and p not in files:
            pr.append(("manifest-duplicate-entry", f"{p} x{listed.count(p)}"))
    allnames = set(pk.order)
    for p in sorted(set(listed)):
        if p == "/":
            continue
        if p.endswith("/"):
            if not any(n.startswith(p) for n in allnames):
                pr.append(("manifest-lists-absent-dir", p))
        elif p not in pk.parts:
            pr.append(("manifest-lists-absent", p))
    return pr


# ---------------------------------------------------------------------------
# sources: how the simulator materialises an input package
# ---------------------------------------------------------------------------


def unzip_to_folder(src_zip: str, folder: str):
    """independent unzip (the sim's own), recording simulated mtimes"""
    e = simenv.env()
    with zipfile.ZipFile(src_zip) as zf:
        for info in zf.infolist():
            dest = os.path.join(folder, info.filename)
            if info.filename.endswith("/"):
                os.makedirs(dest, exist_ok=True)
                continue
            os.makedirs(os.path.dirname(dest), exist_ok=True)
            with open(dest, "wb") as f:
                f.write(zf.read(info))
            if e is not None:
                e.touch(dest)


def foreign_rezip(src_zip: str, dest_zip: str, salt: int):
    """what another producer might write: other member order, mixed
    stored/deflated members, mimetype not first"""
    with zipfile.ZipFile(src_zip) as zf:
        infos = zf.infolist()
        datas = {i.filename: zf.read(i) for i in infos}
    names = [i.filename for i in infos]
    names.sort(key=lambda n: hashlib.sha1((str(salt) + n).encode()).hexdigest())
    with zipfile.ZipFile(dest_zip, "w") as out:
        for k, n in enumerate(names):
            ct = zipfile.ZIP_DEFLATED if (k + salt) % 3 else zipfile.ZIP_STORED
            out.writestr(zipfile.ZipInfo(n), datas[n], compress_type=ct)
    e = simenv.env()
    if e is not None:
        e.touch(dest_zip)


class DocSUT:
    def __init__(self, scratch):
        self.scratch = scratch
        self.doc = None
        self.store = None
        self.src = None  # description of where the doc came from
        self.src_pk = None  # independent reading of the source package
        self.counter = 0

    def newpath(self, stem, ext=""):
        self.counter += 1
        return os.path.join(self.scratch, f"{stem}{self.counter}{ext}")

    def open_init(self, init):
        from odfdo import Document

        kind = init["source"]
        how = init.get("how", "path")
        if kind.startswith("template:"):
            t = kind.split(":", 1)[1]
            self.doc = Document(t)
            pk = xmlref.read_package(template_file(t))
            st = PartStore.from_package(pk)
            # a new document is the template with its type changed to the regular one
            mt = st.base["mimetype"].decode().replace("-template", "")
            st.base["mimetype"] = mt.encode()
            st.mimetype = mt
            man = etree.fromstring(st.base[MANIFEST])
            for fe in man.iter(xmlref.q("manifest:file-entry")):
                if fe.get(xmlref.q("manifest:full-path")) == "/":
                    fe.set(xmlref.q("manifest:media-type"), mt)
            st.base[MANIFEST] = etree.tostring(man, xml_declaration=True, encoding="UTF-8")
            self.store = st
            self.src_pk = None
            self.src = {"kind": "template", "path": None, "packaging": "zip"}
            return
        fname = kind.split(":", 1)[1]
        src = os.path.join(SAMPLES, fname)
        ext = os.path.splitext(fname)[1]
        local = self.newpath("src", ext)
        shutil.copyfile(src, local)
        simenv.env().touch(local)
        if kind.startswith("newfrom:"):
            # Document.new(<path of a document used as a custom template>): a copy with no path of its own
            self.doc = Document.new(local if how != "pathobj" else __import__("pathlib").Path(local))
            pk = xmlref.read_package(local)
            st = PartStore.from_package(pk)
            mt = st.base["mimetype"].decode().replace("-template", "")
            st.base["mimetype"] = mt.encode()
            st.mimetype = mt
            self.store = st
            self.src_pk = pk
            self.src = {"kind": "template", "path": None, "packaging": "zip"}
            if init.get("template_changes_later"):
                other = os.path.join(SAMPLES, "note.odt" if fname != "note.odt" else "list.odt")
                shutil.copyfile(other, local)
                simenv.env().touch(local)
            return
        self.open_artifact(local, how, init.get("salt", 0))

    def open_artifact(self, path, how, salt=0):
        """(re)open: the crash/restart analogue. path = a zip file or a folder"""
        from odfdo import Document

        e = simenv.env()
        if os.path.isdir(path):
            pk = xmlref.read_package(path)
            e.listing_salt = salt
            self.doc = Document(path)
            self.src = {"kind": "folder", "path": path, "packaging": "folder"}
        elif how == "bytesio":
            with open(path, "rb") as f:
                data = f.read()
            pk = xmlref.read_package(data)
            self.doc = Document(io.BytesIO(data))
            self.src = {"kind": "bytesio", "path": None, "packaging": "zip"}
        elif how == "folder":
            folder = self.newpath("in", ".folder")
            unzip_to_folder(path, folder)
            pk = xmlref.read_package(folder)
            e.listing_salt = salt
            self.doc = Document(folder)
            self.src = {"kind": "folder", "path": folder, "packaging": "folder"}
        elif how == "foreign":
            dest = self.newpath("foreign", os.path.splitext(path)[1] or ".odt")
            foreign_rezip(path, dest, salt)
            pk = xmlref.read_package(dest)
            self.doc = Document(dest)
            self.src = {"kind": "zip", "path": dest, "packaging": "zip"}
        else:
            pk = xmlref.read_package(path)
            self.doc = Document(path if how != "pathobj" else __import__("pathlib").Path(path))
            self.src = {"kind": "zip", "path": path, "packaging": "zip"}
        self.store = PartStore.from_package(pk)
        self.src_pk = pk
