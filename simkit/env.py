"""Simulated environment for engine D (DESIGN §2, §4).

The real file system (a per-run scratch directory) sits underneath; the
simulator owns what the properties can depend on:

* the clock (`time.time()` in odfdo.container, `datetime.now()` in meta & co),
* the mtime reported for every file written through the shims (whole-second
  cache invalidation in Container.get_part for folder packaging),
* the order of Path.iterdir(),
* error faults on the k-th write / read / rmtree / move of an operation.

Everything is decided by the op record (no PRNG here): an op carries the
clock advance, the listing permutation seed and the fault directive.
"""
from __future__ import annotations

import errno
import io
import os
import shutil as _real_shutil
import time as _real_time
import zipfile
from datetime import datetime as _real_datetime, timedelta, timezone
from pathlib import Path, PurePath

_ENV = None  # the SimEnv of the current run (one per process at a time)


class InjectedFault(OSError):
    """OSError raised by the simulator (subclass so that harness code can tell)."""


class SimEnv:
    def __init__(self, scratch: str, epoch: float = 1_700_000_000.0):
        self.scratch = scratch
        self.now = epoch
        self.mtimes = {}  # realpath -> simulated mtime
        self.listing_salt = 0  # 0 = natural order
        self.fault = None  # {"site": str, "k": int, "errno": str, "partial": bool}
        self.fault_count = 0
        self.fault_fired = False
        self.counts = {}  # site -> calls during the current op
        self.stats = {}

    # -- clock -------------------------------------------------------------
    def advance(self, dt: float):
        self.now += dt

    # -- faults ------------------------------------------------------------
    def arm(self, fault):
        self.fault = fault
        self.fault_count = 0
        self.fault_fired = False
        self.counts = {}

    def disarm(self):
        fired = self.fault_fired
        self.fault = None
        return fired

    def hit(self, site: str, partial_cb=None):
        """called by the shims at each fault site"""
        self.counts[site] = self.counts.get(site, 0) + 1
        f = self.fault
        if f is None or self.fault_fired or f["site"] != site:
            return
        self.fault_count += 1
        if self.fault_count == f["k"]:
            self.fault_fired = True
            if f.get("partial") and partial_cb is not None:
                partial_cb()
            code = getattr(errno, f.get("errno", "EIO"))
            raise InjectedFault(code, f"injected {f.get('errno', 'EIO')} at {site}#{f['k']}")

    def touch(self, path):
        self.mtimes[os.path.realpath(str(path))] = self.now

    def set_mtime(self, path, value):
        self.mtimes[os.path.realpath(str(path))] = value


def env() -> SimEnv:
    return _ENV


# ---------------------------------------------------------------------------
# shims
# ---------------------------------------------------------------------------


class _StatProxy:
    """os.stat_result with the simulated modification time"""

    def __init__(self, st, mtime):
        self._st = st
        self.st_mtime = mtime
        self.st_mtime_ns = int(mtime * 1e9)

    def __getattr__(self, name):
        return getattr(self._st, name)


class _SimPathMeta(type(Path)):
    def __instancecheck__(cls, inst):
        # Container.open tests isinstance(x, (str, Path)) with the patched name:
        # every pathlib path must pass (template paths are plain PosixPath)
        return isinstance(inst, PurePath)


class SimPath(type(Path()), metaclass=_SimPathMeta):
    """pathlib.Path whose mtime, listing order and writes belong to the sim."""

    def stat(self, *a, **kw):
        st = super().stat(*a, **kw)
        e = _ENV
        if e is not None:
            key = os.path.realpath(str(self))
            if key in e.mtimes:
                return _StatProxy(st, e.mtimes[key])
        return st

    def iterdir(self):
        items = list(super().iterdir())
        e = _ENV
        if e is not None and e.listing_salt:
            import hashlib

            items.sort(key=lambda p: hashlib.sha1((str(e.listing_salt) + p.name).encode()).hexdigest())
        else:
            items.sort(key=lambda p: p.name)
        return iter(items)

    def write_bytes(self, data):
        e = _ENV
        if e is not None:
            def partial():
                with open(self, "wb") as f:
                    f.write(bytes(data)[: max(0, len(data) // 2)])
                e.touch(self)
            e.hit("write_bytes", partial)
        r = super().write_bytes(data)
        if e is not None:
            e.touch(self)
        return r

    def write_text(self, *a, **kw):
        e = _ENV
        if e is not None:
            e.hit("write_text")
        r = super().write_text(*a, **kw)
        if e is not None:
            e.touch(self)
        return r

    def read_bytes(self):
        e = _ENV
        if e is not None:
            e.hit("read_bytes")
        return super().read_bytes()

    def mkdir(self, *a, **kw):
        e = _ENV
        if e is not None:
            e.hit("mkdir")
        return super().mkdir(*a, **kw)


class SimZipFile(zipfile.ZipFile):
    def __init__(self, file, mode="r", *a, **kw):
        self._sim_target = file if isinstance(file, (str, os.PathLike)) else None
        self._sim_mode = mode
        e = _ENV
        if e is not None and mode != "w":
            # (a failing open for reading: nothing has been touched yet)
            self.fp = None
            self._sim_mode = "closed"
            e.hit("zip_open_r")
            self._sim_mode = mode
        super().__init__(file, mode, *a, **kw)
        if e is not None and mode == "w":
            try:
                e.hit("zip_open_w")
            except OSError:
                zipfile.ZipFile.close(self)
                raise

    def writestr(self, zinfo_or_arcname, data, *a, **kw):
        e = _ENV
        if e is not None:
            def partial():
                # a torn entry: half of the data gets written
                d = data if isinstance(data, bytes) else str(data).encode()
                zipfile.ZipFile.writestr(self, zinfo_or_arcname, d[: len(d) // 2], *a, **kw)
            e.hit("writestr", partial)
        return super().writestr(zinfo_or_arcname, data, *a, **kw)

    def read(self, name, *a, **kw):
        e = _ENV
        if e is not None:
            e.hit("zip_read")
        return super().read(name, *a, **kw)

    def close(self):
        if getattr(self, "_sim_mode", None) == "closed":
            return
        super().close()
        e = _ENV
        if e is not None and getattr(self, "_sim_target", None) is not None and self._sim_mode == "w":
            e.touch(self._sim_target)


class _TimeProxy:
    def time(self):
        return _ENV.now if _ENV is not None else _real_time.time()

    def __getattr__(self, name):
        return getattr(_real_time, name)


class _ShutilProxy:
    def rmtree(self, *a, **kw):
        if _ENV is not None:
            _ENV.hit("rmtree")
        return _real_shutil.rmtree(*a, **kw)

    def move(self, *a, **kw):
        if _ENV is not None:
            _ENV.hit("move")
        return _real_shutil.move(*a, **kw)

    def __getattr__(self, name):
        return getattr(_real_shutil, name)


class _SimDateTimeMeta(type):
    def __instancecheck__(cls, inst):
        # odfdo tests isinstance(value, datetime) with the patched name
        return isinstance(inst, _real_datetime)


class SimDateTime(_real_datetime, metaclass=_SimDateTimeMeta):
    @classmethod
    def now(cls, tz=None):
        t = _ENV.now if _ENV is not None else _real_time.time()
        d = _real_datetime.fromtimestamp(t, tz=timezone.utc)
        if tz is None:
            d = d.replace(tzinfo=None)
        else:
            d = d.astimezone(tz)
        return cls(d.year, d.month, d.day, d.hour, d.minute, d.second, d.microsecond, tzinfo=d.tzinfo)


class FaultyBytesIO(io.BytesIO):
    """BytesIO target whose k-th write may fail (argument seam)."""

    def write(self, b):
        e = _ENV
        if e is not None:
            e.hit("bytesio_write")
        return super().write(b)


class ChunkedReader(io.RawIOBase):
    """A file-like source for add_file: read() without size returns
    everything (legal BufferedIOBase behaviour), read(n) returns short."""

    def __init__(self, data: bytes):
        self._b = io.BytesIO(data)

    def read(self, n=-1):
        e = _ENV
        if e is not None:
            e.hit("source_read")
        if n is None or n < 0:
            return self._b.read()
        return self._b.read(min(n, 7))

    def readable(self):
        return True


# ---------------------------------------------------------------------------
# installing the shims
# ---------------------------------------------------------------------------

_PATCHED = []


def install(environment: SimEnv):
    """Replace the module-level seams of odfdo for the duration of a run."""
    global _ENV
    import mimetypes

    import odfdo.container as oc
    import odfdo.document as od
    import odfdo.meta as om
    import odfdo.meta_template as omt
    import odfdo.mixin_dc_date as odc
    import odfdo.note as on
    import odfdo.table as ot

    uninstall()
    _ENV = environment
    for mod, name, new in [
        (oc, "Path", SimPath), (oc, "ZipFile", SimZipFile), (oc, "time", _TimeProxy()), (oc, "shutil", _ShutilProxy()),
        (od, "Path", SimPath), (ot, "Path", SimPath),
        (om, "datetime", SimDateTime), (omt, "datetime", SimDateTime), (odc, "datetime", SimDateTime), (on, "datetime", SimDateTime),
    ]:
        if hasattr(mod, name):
            _PATCHED.append((mod, name, getattr(mod, name)))
            setattr(mod, name, new)
    # pin the mime table to the stdlib one (host /etc/mime.types varies)
    mimetypes.init(files=[])


def uninstall():
    global _ENV
    while _PATCHED:
        mod, name, old = _PATCHED.pop()
        setattr(mod, name, old)
    _ENV = None
