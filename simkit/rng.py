"""One integer decides everything (DESIGN §3.1).

A run seed is derived from (VERIF_SEED, engine, property, run_index) by sha256;
every decision of a run is drawn from one random.Random through Rng.*, and each
draw (label, value) is folded into a running digest *before* it is acted on.
Nothing here reads a clock or any other source of entropy.
"""
from __future__ import annotations

import hashlib
import random

DEFAULT_SEED = 20261003


def derive_seed(base: int, engine: str, prop: str, run_index: int) -> int:
    h = hashlib.sha256(f"{base}/{engine}/{prop}/{run_index}".encode()).digest()
    return int.from_bytes(h[:8], "big")


class Rng:
    def __init__(self, seed: int):
        self.seed = seed
        self._r = random.Random(seed)
        self._h = hashlib.sha1()
        self.ndraws = 0

    def _log(self, label: str, value) -> None:
        self.ndraws += 1
        self._h.update(f"{self.ndraws}:{label}={value!r};".encode())

    def digest(self) -> str:
        return self._h.hexdigest()

    def randint(self, a: int, b: int, label: str = "int") -> int:
        v = self._r.randint(a, b)
        self._log(label, v)
        return v

    def chance(self, p: float, label: str = "p") -> bool:
        v = self._r.random() < p
        self._log(label, v)
        return v

    def uniform(self, a: float, b: float, label: str = "u") -> float:
        v = self._r.uniform(a, b)
        self._log(label, v)
        return v

    def choice(self, seq, label: str = "choice"):
        i = self._r.randrange(len(seq))
        self._log(label, i)
        return seq[i]

    def weighted(self, pairs, label: str = "w"):
        """pairs: list of (item, weight)."""
        total = sum(w for _, w in pairs)
        x = self._r.random() * total
        acc = 0.0
        idx = len(pairs) - 1
        for i, (_, w) in enumerate(pairs):
            acc += w
            if x < acc:
                idx = i
                break
        self._log(label, idx)
        return pairs[idx][0]

    def shuffle(self, lst: list, label: str = "shuffle") -> list:
        lst = list(lst)
        self._r.shuffle(lst)
        self._log(label, len(lst))
        return lst

    def sample(self, seq, k: int, label: str = "sample") -> list:
        idxs = self._r.sample(range(len(seq)), k)
        self._log(label, tuple(idxs))
        return [seq[i] for i in idxs]
