"""Driver: ./check <Cxx> quick|thorough ; ./check replay <file> ;
./check selftest determinism ; ./check triage <Cxx> <n>   (DESIGN §3.7, §10)"""
from __future__ import annotations

import faulthandler
import hashlib
import importlib
import json
import multiprocessing
import os
import subprocess
import sys
import time
from collections import Counter
from concurrent.futures import ProcessPoolExecutor, as_completed

from simkit import kernel
from simkit.kernel import Findings, Stats, Violation, execute, VERIF_DIR
from simkit.rng import DEFAULT_SEED, derive_seed
from simkit.shrink import Shrinker

CLAIMED = ["C01", "C02", "C03", "C04", "C05", "C07", "C08", "C09", "C10", "C11", "C13", "C15", "C17", "C20"]


def load_spec(prop):
    mod = importlib.import_module(f"props.{prop}")
    return mod.SPEC


def assert_repo_import():
    import odfdo

    src = os.path.realpath(kernel.REPO_SRC)
    if not os.path.realpath(odfdo.__file__).startswith(src):
        print(f"HARNESS-ERROR: odfdo imported from {odfdo.__file__}, expected under {src}")
        sys.exit(2)


# ---------------------------------------------------------------------------
# worker
# ---------------------------------------------------------------------------


def _work(args):
    # each chunk of runs executes in a child forked from this worker, which itself never executes a run:
    # a chunk starts from the process state of a fresh interpreter (kernel.isolated)
    try:
        return kernel.isolated(_work_chunk, args)
    except kernel.HarnessError as e:
        prop, tier, base_seed, start, count, nsamples = args
        return {"start": start, "count": 0, "steps": 0, "digests": [], "nontrivial": [], "counters": Counter(), "transitions": set(), "states": set(),
                "known": Counter(), "known_what": {}, "violation": None, "samples": [], "resyncs": 0,
                "harness_error": {"run_index": start, "seed": None, "error": f"chunk of runs {start}..{start + count - 1} could not be executed: {e}", "ops": []}}


def _work_chunk(args):
    prop, tier, base_seed, start, count, nsamples = args
    spec = load_spec(prop)
    engine_cls = spec["engine"]
    findings = Findings()
    out = {
        "start": start, "count": 0, "steps": 0, "digests": [], "nontrivial": [], "counters": Counter(),
        "transitions": set(), "states": set(), "known": Counter(), "known_what": {}, "violation": None,
        "harness_error": None, "samples": [], "resyncs": 0,
    }
    earlier = []  # the runs of this chunk so far (kept only to be able to replay the chunk's process state)
    for i in range(start, start + count):
        seed = derive_seed(base_seed, engine_cls.name, prop, i)
        r = execute(engine_cls, prop, seed=seed, findings=findings, tier=tier)
        out["count"] += 1
        if r.harness_error:
            out["harness_error"] = {"run_index": i, "seed": seed, "error": r.harness_error, "ops": r.ops[-3:]}
            break
        out["steps"] += r.steps
        out["digests"].append((i, r.digest))
        if r.nontrivial:
            out["nontrivial"].append(r.digest)
        out["counters"].update(r.stats.c)
        out["transitions"] |= r.stats.transitions
        out["states"] |= r.stats.states
        out["resyncs"] += r.resyncs
        for k in r.known:
            out["known"][k] += 1
        out["known_what"].update(r.known_what)
        if len(out["samples"]) < nsamples and r.nontrivial:
            out["samples"].append({"run_index": i, "seed": seed, "cfg": r.cfg, "ops": r.ops[:12], "n_ops": len(r.ops)})
        if r.violation is not None:
            out["violation"] = {"run_index": i, "seed": seed, "cfg": r.cfg, "ops": r.ops, "violation": r.violation.as_dict(), "prelude": earlier}
            break
        earlier.append({"run_index": i, "cfg": r.cfg, "ops": r.ops})
    return out


def _replay_outcome(engine_cls, prop, prelude, cfg, ops, findings):
    r = kernel.execute_with_prelude(engine_cls, prop, prelude, cfg, ops, findings)
    return (r.harness_error, repr(r.violation) if r.violation is not None else None)


def _final_outcome(engine_cls, prop, prelude, cfg, ops, findings):
    r = kernel.execute_with_prelude(engine_cls, prop, prelude, cfg, ops, findings)
    return None if (r.harness_error or r.violation is None) else r.violation.as_dict()


def _digests_only(args):
    prop, tier, base_seed, start, count = args
    spec = load_spec(prop)
    engine_cls = spec["engine"]
    findings = Findings()
    res = []
    for i in range(start, start + count):
        seed = derive_seed(base_seed, engine_cls.name, prop, i)
        r = execute(engine_cls, prop, seed=seed, findings=findings, tier=tier)
        res.append((i, r.digest if not r.harness_error else "ERR:" + r.harness_error[:200]))
    return res


# ---------------------------------------------------------------------------
# check
# ---------------------------------------------------------------------------


def cmd_check(prop, tier):
    t0 = time.time()
    assert_repo_import()
    spec = load_spec(prop)
    engine_cls = spec["engine"]
    base_seed = int(os.environ.get("VERIF_SEED", DEFAULT_SEED))
    workers = int(os.environ.get("VERIF_WORKERS", min(16, os.cpu_count() or 4)))
    if tier == "quick":
        n_runs = int(os.environ.get("VERIF_RUNS", spec.get("quick_runs", 2000)))
        budget = float(os.environ.get("VERIF_BUDGET_S", spec.get("quick_budget_s", 75)))
    else:
        n_runs = int(os.environ.get("VERIF_RUNS", 10**9))
        budget = float(os.environ.get("VERIF_BUDGET_S", spec.get("thorough_budget_s", 900)))
    chunk = spec.get("chunk", 25)
    findings = Findings()
    stats = Stats()
    total = {"runs": 0, "steps": 0, "resyncs": 0}
    nontrivial = set()
    digests = {}
    known = Counter()
    known_what = {}
    samples = []
    violations = []
    regressions = []
    harness = None
    # regression replays: the committed history of every finding recorded as
    # fixed for this property must pass; it is reported again if it returns
    for e in findings.entries:
        if e.get("property") != prop or e.get("status") != "fixed" or not e.get("replay"):
            continue
        rp = os.path.join(VERIF_DIR, e["replay"])
        if not os.path.exists(rp):
            continue
        doc = kernel.load_replay(rp)
        herr, vrepr = kernel.isolated(_replay_outcome, engine_cls, prop, doc.get("prelude"), doc["cfg"], doc["ops"], findings)
        stats.probe("regression_replays")
        if herr:
            print(f"HARNESS-ERROR in regression replay {rp}: {herr}")
            sys.exit(2)
        if vrepr is not None:
            print(f"regression: fixed finding {e['id']} is back: {vrepr}")
            regressions.append(e["replay"])
    ctx = multiprocessing.get_context("fork")
    next_start = 0
    stop_submit = False
    with ProcessPoolExecutor(max_workers=workers, mp_context=ctx) as pool:
        pending = set()

        def submit():
            nonlocal next_start
            while len(pending) < workers * 2 and next_start < n_runs and not stop_submit:
                cnt = min(chunk, n_runs - next_start)
                pending.add(pool.submit(_work, (prop, tier, base_seed, next_start, cnt, 1 if len(samples) < 4 else 0)))
                next_start += cnt

        submit()
        while pending:
            done = next(as_completed(pending))
            pending.discard(done)
            out = done.result()
            total["runs"] += out["count"]
            total["steps"] += out["steps"]
            total["resyncs"] += out["resyncs"]
            nontrivial.update(out["nontrivial"])
            digests.update(dict(out["digests"]))
            stats.c.update(out["counters"])
            stats.transitions |= out["transitions"]
            stats.states |= out["states"]
            known.update(out["known"])
            known_what.update(out["known_what"])
            for s in out["samples"]:
                if len(samples) < 4:
                    samples.append(s)
            if out["harness_error"] and harness is None:
                harness = out["harness_error"]
                stop_submit = True
            if out["violation"]:
                violations.append(out["violation"])
                stop_submit = True
            if time.time() - t0 > budget:
                stop_submit = True
            submit()
    if harness:
        print(f"HARNESS-ERROR property={prop} run_index={harness['run_index']} seed={harness['seed']}")
        print(harness["error"])
        print(json.dumps(harness["ops"], default=str)[:3000])
        sys.exit(2)

    # reduced determinism self-test: the first few runs again, in a fresh
    # interpreter under another PYTHONHASHSEED; digests must be identical
    det = selftest_fresh(prop, tier, base_seed, 0, min(8, total["runs"]), digests)
    if det["mismatch"]:
        print(f"HARNESS-NONDETERMINISM property={prop} {det['mismatch'][:3]}")
        sys.exit(2)

    replay_paths = []
    exit_code = 0
    if violations:
        violations.sort(key=lambda v: v["run_index"])
        v0 = violations[0]
        path, status = minimise_and_record(prop, engine_cls, v0, findings)
        if status == "nondeterministic":
            print(f"HARNESS-NONDETERMINISM property={prop}: the minimised history did not reproduce in a fresh interpreter ({path})")
            sys.exit(2)
        replay_paths.append(path)
        exit_code = 1

    for rp in regressions:
        replay_paths.append(rp)
        exit_code = 1
    for k in sorted(known):
        print(f"KNOWN-FINDING: property={prop} {known_what[k]} [id={k}, hit in {known[k]} runs]")

    wall = time.time() - t0
    write_evidence(prop, tier, base_seed, spec, total, nontrivial, stats, known, samples, violations, wall, det, workers, regressions)
    print(f"{prop} {tier}: runs={total['runs']} steps={total['steps']} nontrivial_distinct={len(nontrivial)} "
          f"transitions={len(stats.transitions)} states={len(stats.states)} known_hits={sum(known.values())} wall={wall:.1f}s")
    for p in replay_paths:
        print(f"VIOLATION property={prop} replay={p}")
    sys.exit(exit_code)


def selftest_fresh(prop, tier, base_seed, start, count, digests):
    if count <= 0:
        return {"checked": 0, "mismatch": []}
    env = dict(os.environ)
    env["PYTHONHASHSEED"] = "12345" if os.environ.get("PYTHONHASHSEED") != "12345" else "54321"
    env["VERIF_SEED"] = str(base_seed)
    cmd = [sys.executable, "-B", "-m", "simkit.main", "digests", prop, tier, str(start), str(count)]
    p = subprocess.run(cmd, capture_output=True, text=True, env=env, cwd=VERIF_DIR, timeout=300)
    if p.returncode != 0:
        return {"checked": 0, "mismatch": [("subprocess", p.stderr[-500:])]}
    got = json.loads(p.stdout.strip().splitlines()[-1])
    mism = [(i, d, digests.get(i)) for i, d in got if i in digests and digests.get(i) != d]
    return {"checked": len(got), "mismatch": mism}


def minimise_and_record(prop, engine_cls, v, findings):
    viol = Violation.from_dict(v["violation"])
    klass = tuple(viol.klass())
    sh = Shrinker(engine_cls, prop, v["cfg"], findings, viol.klass(), budget=400)
    prelude = []
    # does the run fail on its own (from the process state of a fresh interpreter)?
    if not sh.fails_with_prelude([], v["ops"]):
        # no: it needs the state left behind by the earlier runs of its chunk (a module-level cache, a mutable
        # default argument, ... of the code under test): those runs become the prelude of the replay file
        prelude = [{"cfg": p["cfg"], "ops": p["ops"]} for p in v.get("prelude", [])]
        if not prelude or not sh.fails_with_prelude(prelude, v["ops"]):
            path = os.path.join(VERIF_DIR, "replays", f"{prop}-{v['seed']}-unreproduced.json")
            kernel.write_replay(path, engine_cls.name, prop, v["seed"], v["cfg"], v["ops"], viol, extra={"run_index": v["run_index"], "prelude": prelude})
            return path, "nondeterministic"
        sh.prelude = prelude
        prelude = sh.minimise_prelude(v["ops"])
    ops = sh.minimise(v["ops"])
    fin = kernel.isolated(_final_outcome, engine_cls, prop, prelude, v["cfg"], ops, findings)
    if fin is None or tuple(Violation.from_dict(fin).klass()) != klass:
        ops = v["ops"]
        fin = kernel.isolated(_final_outcome, engine_cls, prop, prelude, v["cfg"], ops, findings)
    final = Violation.from_dict(fin) if fin else viol
    body = json.dumps([prelude, ops], sort_keys=True, default=str)
    dig = hashlib.sha1(body.encode()).hexdigest()[:10]
    path = os.path.join(VERIF_DIR, "replays", f"{prop}-{v['seed']}-{dig}.json")
    extra = {"original_len": len(v["ops"]), "shrink_tries": sh.tries, "run_index": v["run_index"]}
    if prelude:
        extra["prelude"] = prelude
        extra["prelude_note"] = "the violation depends on process state left by these earlier runs: they are replayed first, in this order, in the same process"
    kernel.write_replay(path, engine_cls.name, prop, v["seed"], v["cfg"], ops, final, extra=extra)
    # replay once more in a fresh interpreter
    env = dict(os.environ)
    env["PYTHONHASHSEED"] = "777"
    p = subprocess.run([sys.executable, "-B", "-m", "simkit.main", "replay", path], capture_output=True, text=True, env=env, cwd=VERIF_DIR, timeout=600)
    if p.returncode != 1 or "VIOLATION" not in p.stdout:
        return path, "nondeterministic"
    print(f"violation: {final!r}")
    print(f"minimised from {len(v['ops'])} to {len(ops)} ops in {sh.tries} replays" + (f"; needs {len(prelude)} earlier run(s) of the same process as prelude (of {len(v.get('prelude', []))})" if prelude else ""))
    for o in ops:
        o = dict(o)
        o.pop("obs", None)
        print("   ", json.dumps(o, default=str)[:400])
    return path, "ok"


def write_evidence(prop, tier, base_seed, spec, total, nontrivial, stats, known, samples, violations, wall, det, workers, regressions=()):
    faults = {k[len("fault:"):]: v for k, v in stats.c.items() if k.startswith("fault:")}
    envv = {k[len("env:"):]: v for k, v in stats.c.items() if k.startswith("env:")}
    probes = {k: v for k, v in sorted(stats.c.items()) if not k.startswith(("fault:", "env:"))}
    cov = {
        "evaluations": total["runs"],
        "distinct_nontrivial": len(nontrivial),
        "rule": spec["rule"],
        "samples": samples,
        "steps": total["steps"],
        "runs_per_hour": int(total["runs"] / wall * 3600) if wall > 0 else 0,
        "steps_per_hour": int(total["steps"] / wall * 3600) if wall > 0 else 0,
        "seeds": {"base": base_seed, "derivation": "sha256(f'{base}/{engine}/{property}/{run_index}')[:8]", "first_run_index": 0, "last_run_index": total["runs"] - 1},
        "sim_time_s": stats.c.get("sim_time_s", 0),
        "faults_injected": faults,
        "env_variations": envv,
        "probes": probes,
        "abstract_transitions": len(stats.transitions),
        "abstract_transition_measure": spec.get("transition_measure", "distinct (pre-state shape class, op, trigger-feature set) triples"),
        "distinct_states": len(stats.states),
        "known_findings_hit": dict(known),
        "resyncs": total["resyncs"],
        "real_components": spec.get("real_components", ["odfdo (all of it, from /repo/src)", "lxml", "zipfile", "csv"]),
        "stubbed_components": spec.get("stubbed_components", []),
        "determinism_selftest": {"runs_rechecked_in_fresh_interpreter": det["checked"], "mismatches": len(det["mismatch"])},
        "workers": workers,
    }
    ev = {
        "property_id": prop,
        "tier": tier,
        "seed": base_seed,
        "level": "exploration",
        "coverage": cov,
        "assumptions": spec.get("assumptions", []),
        "wall_s": round(wall, 2),
        "violations": len(violations) + len(regressions),
    }
    evdir = os.environ.get("VERIF_EVIDENCE_DIR") or os.path.join(VERIF_DIR, "evidence")  # (override: development runs against a scratch tree)
    os.makedirs(evdir, exist_ok=True)
    with open(os.path.join(evdir, f"{prop}.json"), "w") as f:
        json.dump(ev, f, indent=1, default=str)


# ---------------------------------------------------------------------------
# replay / digests / triage / selftest
# ---------------------------------------------------------------------------


def cmd_replay(path):
    assert_repo_import()
    doc = kernel.load_replay(path)
    prop = doc["property"]
    spec = load_spec(prop)
    use_findings = Findings() if not doc.get("ignore_findings") else kernel.NoFindings()
    r = kernel.execute_with_prelude(spec["engine"], prop, doc.get("prelude"), doc["cfg"], doc["ops"], use_findings)
    if r.harness_error:
        print(r.harness_error)
        sys.exit(2)
    for k in sorted(set(r.known)):
        print(f"KNOWN-FINDING: property={prop} {r.known_what[k]} [id={k}]")
    if r.violation is None:
        print(f"replay {path}: no violation (steps={r.steps})")
        sys.exit(0)
    print(f"replay {path}: {r.violation!r}")
    rec = doc.get("violation")
    if rec and tuple(Violation.from_dict(rec).klass()) != tuple(r.violation.klass()):
        print("note: violation class differs from the recorded one:", rec)
    print(f"VIOLATION property={prop} replay={path}")
    sys.exit(1)


def cmd_digests(prop, tier, start, count):
    base_seed = int(os.environ.get("VERIF_SEED", DEFAULT_SEED))
    res = _digests_only((prop, tier, base_seed, start, count))
    print(json.dumps(res))


def cmd_triage(prop, n, want):
    """development aid: minimised example per violation class, findings ignored or not"""
    spec = load_spec(prop)
    engine_cls = spec["engine"]
    base_seed = int(os.environ.get("VERIF_SEED", DEFAULT_SEED))
    findings = Findings() if not os.environ.get("VERIF_NO_FINDINGS") else kernel.NoFindings()
    seen = Counter()
    for i in range(n):
        seed = derive_seed(base_seed, engine_cls.name, prop, i)
        r = execute(engine_cls, prop, seed=seed, findings=findings)
        if r.harness_error:
            print(i, r.harness_error)
            print(json.dumps(r.ops[-3:], default=str)[:2000])
            break
        if r.violation:
            k = r.violation.klass()
            seen[k] += 1
            if seen[k] > 1:
                continue
            if want and not any(w in str(k) for w in want):
                continue
            sh = Shrinker(engine_cls, prop, r.cfg, findings, k)
            ops = sh.minimise(r.ops)
            r2 = execute(engine_cls, prop, cfg=r.cfg, ops=ops, findings=findings)
            print("=====", k, "run", i, "tries", sh.tries)
            for o in ops:
                o = dict(o)
                o.pop("obs", None)
                print("   ", json.dumps(o, default=str)[:600])
            print("   ->", r2.violation.features, r2.violation.detail[:400])
    print("classes:", dict(seen))


def cmd_selftest_determinism(props, count):
    assert_repo_import()
    base_seed = int(os.environ.get("VERIF_SEED", DEFAULT_SEED))
    ok = True
    ctx = multiprocessing.get_context("fork")
    for prop in props:
        ref = dict(_digests_only((prop, "quick", base_seed, 0, count)))
        for nw in (4, 16):
            with ProcessPoolExecutor(max_workers=nw, mp_context=ctx) as pool:
                per = max(1, count // nw)
                futs = [pool.submit(_digests_only, (prop, "quick", base_seed, s, min(per, count - s))) for s in range(0, count, per)]
                got = {}
                for f in futs:
                    got.update(dict(f.result()))
            bad = [i for i in ref if got.get(i) != ref[i]]
            print(f"determinism {prop}: {count} runs, {nw} workers vs in-process: {len(bad)} mismatches")
            ok &= not bad
        for hs in ("0", "1", "31337"):
            env = dict(os.environ)
            env["PYTHONHASHSEED"] = hs
            env["VERIF_SEED"] = str(base_seed)
            p = subprocess.run([sys.executable, "-B", "-m", "simkit.main", "digests", prop, "quick", "0", str(count)], capture_output=True, text=True, env=env, cwd=VERIF_DIR)
            got = dict(json.loads(p.stdout.strip().splitlines()[-1])) if p.returncode == 0 else {}
            bad = [i for i in ref if got.get(i) != ref[i]]
            print(f"determinism {prop}: fresh interpreter PYTHONHASHSEED={hs}: {len(bad)} mismatches")
            ok &= not bad
        errs = [i for i, d in ref.items() if d.startswith("ERR")]
        if errs:
            print(f"determinism {prop}: harness errors in runs {errs[:5]}")
            ok = False
    if not ok:
        print("HARNESS-NONDETERMINISM")
        sys.exit(2)
    print("determinism self-test passed")


def main(argv):
    faulthandler.enable()
    if len(argv) < 2:
        print(__doc__)
        sys.exit(2)
    cmd = argv[1]
    if cmd == "replay":
        cmd_replay(argv[2])
    elif cmd == "digests":
        cmd_digests(argv[2], argv[3], int(argv[4]), int(argv[5]))
    elif cmd == "triage":
        cmd_triage(argv[2], int(argv[3]), argv[4:])
    elif cmd == "selftest":
        if argv[2] == "determinism":
            props = argv[3].split(",") if len(argv) > 3 else [p for p in CLAIMED if os.path.exists(os.path.join(VERIF_DIR, "props", p + ".py"))]
            cmd_selftest_determinism(props, int(argv[4]) if len(argv) > 4 else 200)
        else:
            print("unknown selftest")
            sys.exit(2)
    elif cmd.startswith("C"):
        tier = argv[2] if len(argv) > 2 else os.environ.get("VERIF_TIER", "quick")
        cmd_check(cmd, tier)
    else:
        print(__doc__)
        sys.exit(2)


if __name__ == "__main__":
    try:
        main(sys.argv)
    except SystemExit:
        raise
    except BaseException as e:  # noqa: BLE001 - anything unexpected is harness trouble (exit 2), never a verdict
        import traceback

        traceback.print_exc()
        print(f"HARNESS-ERROR: {type(e).__name__}: {e}")
        sys.exit(2)
