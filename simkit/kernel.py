"""Simulator kernel: step loop, violation records, known-finding triage,
replay files (DESIGN §3.2–3.4, §8)."""
from __future__ import annotations

import hashlib
import json
import os
import signal
import subprocess
import sys
import traceback
from collections import Counter

from simkit.rng import Rng

VERIF_DIR = os.path.dirname(os.path.dirname(os.path.abspath(__file__)))
REPO_SRC = os.environ.get("VERIF_REPO_SRC", "/repo/src")
# wall-clock guard against a hung run (never part of a run's behaviour); generous: 16 workers on a loaded
# machine make an ordinary deep run several times slower than it is alone
RUN_TIMEOUT_S = float(os.environ.get("VERIF_RUN_TIMEOUT_S", 120))


class HarnessError(Exception):
    """A bug or trouble in the machinery itself (never a VIOLATION)."""


class HarnessHang(BaseException):
    """raised from the SIGALRM handler; a BaseException so that no 'except Exception'
    of the code under test (or of an engine) can swallow it"""


class Violation:
    __slots__ = ("property", "oracle", "op", "features", "exc", "detail", "step")

    def __init__(self, property, oracle, op, features=(), exc=None, detail="", step=-1):
        self.property = property
        self.oracle = oracle
        self.op = op
        self.features = sorted(features)
        self.exc = exc
        self.detail = detail
        self.step = step

    def klass(self):
        return (self.property, self.oracle, self.op, self.exc)

    def as_dict(self):
        return {k: getattr(self, k) for k in self.__slots__}

    @classmethod
    def from_dict(cls, d):
        return cls(d["property"], d["oracle"], d["op"], d.get("features", ()), d.get("exc"), d.get("detail", ""), d.get("step", -1))

    def __repr__(self):
        return f"<Violation {self.property}/{self.oracle} op={self.op} exc={self.exc} feats={self.features} step={self.step}: {self.detail[:200]}>"


# ---------------------------------------------------------------------------
# known findings
# ---------------------------------------------------------------------------


class Findings:
    def __init__(self, path=None):
        self.path = path or os.path.join(VERIF_DIR, "known_findings.json")
        self.entries = []
        if os.path.exists(self.path):
            with open(self.path) as f:
                self.entries = json.load(f)

    def match(self, v: Violation):
        for e in self.entries:
            if e.get("status") != "open":
                continue
            if e["property"] != v.property:
                continue
            sig = e["signature"]
            so = sig.get("oracle")
            if isinstance(so, list):
                if v.oracle not in so:
                    continue
            elif so != v.oracle:
                continue
            ops = sig.get("op")
            if ops is None:
                pass
            elif isinstance(ops, list):
                if v.op not in ops:
                    continue
            elif ops != v.op:
                continue
            if "exc" in sig and (v.exc not in sig["exc"] if isinstance(sig["exc"], list) else sig["exc"] != v.exc):
                continue
            if not set(sig.get("features", [])) <= set(v.features):
                continue
            if any(f in v.features for f in sig.get("not_features", [])):
                continue
            if "detail_contains" in sig and sig["detail_contains"] not in v.detail:
                continue
            return e
        return None


class NoFindings:
    entries = []

    def match(self, v):
        return None


# ---------------------------------------------------------------------------
# statistics
# ---------------------------------------------------------------------------


class Stats:
    def __init__(self):
        self.c = Counter()
        self.transitions = set()
        self.states = set()

    def probe(self, name, n=1):
        self.c[name] += n

    def merge(self, other: "Stats"):
        self.c.update(other.c)
        self.transitions |= other.transitions
        self.states |= other.states


# ---------------------------------------------------------------------------
# one run
# ---------------------------------------------------------------------------


class RunResult:
    def __init__(self):
        self.seed = None
        self.cfg = None
        self.ops = []
        self.digest = ""
        self.steps = 0
        self.violation = None  # first unlisted violation
        self.known = []  # ids of known findings hit
        self.known_what = {}
        self.nontrivial = False
        self.harness_error = None
        self.stats = Stats()
        self.resyncs = 0


def _alarm(signum, frame):
    raise HarnessHang("run exceeded its wall-clock guard (%ds by default)" % RUN_TIMEOUT_S)


def execute(engine_cls, prop, *, seed=None, cfg=None, ops=None, findings=None, tier="quick", max_steps=None, timeout=True, timeout_s=None) -> RunResult:
    """Generate-and-run (ops is None) or replay (ops given; no PRNG at all)."""
    res = RunResult()
    res.seed = seed
    findings = findings or NoFindings()
    rng = None
    if ops is None:
        rng = Rng(seed)
        cfg = engine_cls.gen_cfg(rng, prop, tier)
    res.cfg = cfg
    log = hashlib.sha1()
    eng = None
    old = None
    if timeout:
        old = signal.signal(signal.SIGALRM, _alarm)
        # fires after RUN_TIMEOUT_S and then every 2 s, in case something swallows the first one
        signal.setitimer(signal.ITIMER_REAL, timeout_s or RUN_TIMEOUT_S, 2.0)
    try:
        eng = engine_cls(prop, cfg, res.stats)
        limit = max_steps or cfg.get("max_steps", 40)
        i = 0
        while True:
            if ops is not None:
                if i >= len(ops):
                    break
                op = ops[i]
            else:
                if i >= limit:
                    break
                op = eng.gen_init(rng) if i == 0 else eng.gen_op(rng)
                if op is None:
                    break
            res.ops.append(op)
            try:
                vs = eng.step(op)
            except (HarnessError, HarnessHang):
                raise
            except Exception as e:
                # an exception raised INSIDE the library under test while an oracle was reading it (the last frame of the
                # traceback lies in the library's source tree) is a verdict on the library, not harness trouble: the
                # library's public reads are expected to answer
                tb = e.__traceback__
                files = []
                while tb is not None:
                    files.append(os.path.realpath(tb.tb_frame.f_code.co_filename))
                    tb = tb.tb_next
                repo = os.path.realpath(REPO_SRC) + os.sep
                mine = (os.path.join(VERIF_DIR, "engines") + os.sep, os.path.join(VERIF_DIR, "simkit", "kernel.py"))
                k_mine = max([k for k, f in enumerate(files) if f.startswith(mine)] or [-1])
                lib = [f for f in files[k_mine + 1:] if f.startswith(repo)]  # frames of the library BELOW the last frame of an oracle
                last = lib[-1] if lib else None
                if last and i > 0:
                    vs = [Violation(prop, "library-raised-while-observed", op.get("op", "?") if op.get("op") != "read" else "read:" + str(op.get("kind")), [], type(e).__name__,
                                    f"{type(e).__name__}: {e} (raised in {os.path.relpath(last, os.path.realpath(REPO_SRC))} while the step's oracle was reading the document)")]
                else:
                    raise
            log.update(json.dumps(op, sort_keys=True, default=str).encode())
            log.update(eng.outcome().encode())
            log.update(eng.state_digest().encode())
            need_resync = False
            for v in vs:
                v.step = i
                e = findings.match(v)
                if e is not None:
                    res.known.append(e["id"])
                    res.known_what[e["id"]] = e["what"]
                    need_resync = True
                else:
                    res.violation = v
                    break
            i += 1
            if res.violation:
                break
            if need_resync:
                eng.resync()
                res.resyncs += 1
        if not res.violation:
            for v in eng.finish():
                v.step = i
                e = findings.match(v)
                if e is not None:
                    res.known.append(e["id"])
                    res.known_what[e["id"]] = e["what"]
                else:
                    res.violation = v
                    break
        res.steps = i
        res.nontrivial = eng.nontrivial()
        if rng is not None:
            log.update(rng.digest().encode())
        res.digest = log.hexdigest()
    except HarnessHang as e:
        res.harness_error = "HARNESS-HANG: " + str(e)
    except Exception:  # a bug in the machinery: classified apart from violations
        res.harness_error = "HARNESS-EXCEPTION: " + traceback.format_exc()
    finally:
        if timeout:
            signal.setitimer(signal.ITIMER_REAL, 0, 0)
            signal.signal(signal.SIGALRM, old)
        if eng is not None:
            try:
                eng.close()
            except Exception:
                pass
    return res


# ---------------------------------------------------------------------------
# replay files
# ---------------------------------------------------------------------------


def tree_fingerprint():
    h = hashlib.sha1()
    base = os.path.join(REPO_SRC, "odfdo")
    for root, dirs, files in os.walk(base):
        dirs.sort()
        for f in sorted(files):
            if f.endswith(".py"):
                with open(os.path.join(root, f), "rb") as fh:
                    h.update(f.encode())
                    h.update(fh.read())
    try:
        head = subprocess.run(["git", "-C", os.path.dirname(REPO_SRC), "rev-parse", "HEAD"], capture_output=True, text=True, timeout=10).stdout.strip()
    except Exception:
        head = "?"
    return {"repo_head": head, "src_sha1": h.hexdigest()}


def isolated(fn, *args):
    """Run fn(*args) in a forked child and return its (picklable) result.

    Process state is one more thing a run may depend on (module-level caches, mutable default
    arguments, class attributes of the library under test).  A batch of runs executed in a child forked
    from a process that has never executed a run starts from the state of a fresh interpreter, so what
    it does is a function of (code, seed, run indexes) alone and can be replayed."""
    import pickle

    r, w = os.pipe()
    pid = os.fork()
    if pid == 0:
        code = 0
        try:
            os.close(r)
            try:
                payload = pickle.dumps(("ok", fn(*args)))
            except BaseException as e:  # noqa: BLE001 - reported to the parent
                payload = pickle.dumps(("err", f"{type(e).__name__}: {e}\n{traceback.format_exc()[-1500:]}"))
            with os.fdopen(w, "wb") as f:
                f.write(payload)
        except BaseException:
            code = 3
        finally:
            os._exit(code)
    os.close(w)
    with os.fdopen(r, "rb") as f:
        data = f.read()
    _, status = os.waitpid(pid, 0)
    if not data:
        raise HarnessError(f"isolated child died without an answer (wait status {status})")
    kind, val = pickle.loads(data)
    if kind == "err":
        raise HarnessError("isolated child failed: " + val)
    return val


def execute_with_prelude(engine_cls, prop, prelude, cfg, ops, findings, timeout_s=None):
    """replay `prelude` (earlier runs of the same process: list of {cfg, ops}) and then one run; the result of
    the last one is returned"""
    for pr in prelude or []:
        execute(engine_cls, prop, cfg=pr["cfg"], ops=pr["ops"], findings=findings, timeout_s=timeout_s)
    return execute(engine_cls, prop, cfg=cfg, ops=ops, findings=findings, timeout_s=timeout_s)


def write_replay(path, engine_name, prop, seed, cfg, ops, violation: Violation, extra=None):
    os.makedirs(os.path.dirname(path), exist_ok=True)
    doc = {
        "format": "odfdo-verif-replay/1",
        "engine": engine_name,
        "property": prop,
        "seed": seed,
        "cfg": cfg,
        "ops": ops,
        "violation": violation.as_dict() if violation else None,
        "tree": tree_fingerprint(),
    }
    if extra:
        doc.update(extra)
    with open(path, "w") as f:
        json.dump(doc, f, indent=1, sort_keys=True, default=str)
    return path


def load_replay(path):
    with open(path) as f:
        return json.load(f)
