"""Independent readers (DESIGN §3.5): the trusted base of the oracles.

Written against lxml / zipfile only.  Nothing in this module imports or calls
odfdo.  Inputs are lxml elements, XML bytes/str, or paths/bytes of packages.
"""
from __future__ import annotations

import io
import os
import re
import zipfile
from datetime import date, datetime, timedelta
from decimal import Decimal, InvalidOperation

from lxml import etree

NSMAP = {
    "office": "urn:oasis:names:tc:opendocument:xmlns:office:1.0",
    "table": "urn:oasis:names:tc:opendocument:xmlns:table:1.0",
    "text": "urn:oasis:names:tc:opendocument:xmlns:text:1.0",
    "style": "urn:oasis:names:tc:opendocument:xmlns:style:1.0",
    "draw": "urn:oasis:names:tc:opendocument:xmlns:drawing:1.0",
    "fo": "urn:oasis:names:tc:opendocument:xmlns:xsl-fo-compatible:1.0",
    "xlink": "http://www.w3.org/1999/xlink",
    "meta": "urn:oasis:names:tc:opendocument:xmlns:meta:1.0",
    "dc": "http://purl.org/dc/elements/1.1/",
    "number": "urn:oasis:names:tc:opendocument:xmlns:datastyle:1.0",
    "svg": "urn:oasis:names:tc:opendocument:xmlns:svg-compatible:1.0",
    "manifest": "urn:oasis:names:tc:opendocument:xmlns:manifest:1.0",
    "presentation": "urn:oasis:names:tc:opendocument:xmlns:presentation:1.0",
    "chart": "urn:oasis:names:tc:opendocument:xmlns:chart:1.0",
    "form": "urn:oasis:names:tc:opendocument:xmlns:form:1.0",
    "script": "urn:oasis:names:tc:opendocument:xmlns:script:1.0",
    "config": "urn:oasis:names:tc:opendocument:xmlns:config:1.0",
}


def q(prefixed: str) -> str:
    p, n = prefixed.split(":")
    return "{%s}%s" % (NSMAP[p], n)


T_TABLE = q("table:table")
T_ROW = q("table:table-row")
T_ROWS = q("table:table-rows")
T_HROWS = q("table:table-header-rows")
T_RGROUP = q("table:table-row-group")
T_COL = q("table:table-column")
T_COLS = q("table:table-columns")
T_HCOLS = q("table:table-header-columns")
T_CGROUP = q("table:table-column-group")
T_CELL = q("table:table-cell")
T_COVERED = q("table:covered-table-cell")
A_RROWS = q("table:number-rows-repeated")
A_RCOLS = q("table:number-columns-repeated")
A_STYLE = q("table:style-name")
A_DCSTYLE = q("table:default-cell-style-name")
A_CSPAN = q("table:number-columns-spanned")
A_RSPAN = q("table:number-rows-spanned")
A_VTYPE = q("office:value-type")
A_VALUE = q("office:value")
A_SVALUE = q("office:string-value")
A_BVALUE = q("office:boolean-value")
A_DVALUE = q("office:date-value")
A_TVALUE = q("office:time-value")
X_P = q("text:p")
X_H = q("text:h")
X_S = q("text:s")
X_TAB = q("text:tab")
X_LB = q("text:line-break")
X_NOTE = q("text:note")
X_ANNOT = q("office:annotation")
X_ANNOT_END = q("office:annotation-end")
X_BINARY = q("office:binary-data")
A_TC = q("text:c")


def to_element(x):
    """Accept an lxml element, bytes or str (a standalone XML document)."""
    if isinstance(x, (bytes, str)):
        if isinstance(x, str):
            x = x.encode("utf-8")
        return etree.fromstring(x)
    return x


def reparse(el) -> "etree._Element":
    """Serialise an lxml element standalone and parse it again: nothing of the
    original tree object survives (our 'durable state' reader)."""
    return etree.fromstring(etree.tostring(el, with_tail=False))


# --------------------------------------------------------------------------
# tables
# --------------------------------------------------------------------------


def _rep(el, attr) -> int:
    v = el.get(attr)
    if v is None:
        return 1
    try:
        return max(int(v), 1)
    except ValueError:
        return 1


def iter_rows(table_el):
    """Row elements in document order, through the ODF grouping elements."""
    for child in table_el:
        if child.tag == T_ROW:
            yield child
        elif child.tag in (T_ROWS, T_HROWS, T_RGROUP):
            yield from iter_rows(child)


def iter_cols(table_el):
    for child in table_el:
        if child.tag == T_COL:
            yield child
        elif child.tag in (T_COLS, T_HCOLS, T_CGROUP):
            yield from iter_cols(child)


def iter_cells(row_el):
    for child in row_el:
        if child.tag in (T_CELL, T_COVERED):
            yield child


_DUR = re.compile(r"^(-)?P(?:(\d+)D)?(?:T(?:(\d+)H)?(?:(\d+)M)?(?:(\d+)(?:\.\d+)?S)?)?$")


def decode_duration(s: str):
    m = _DUR.match(s)
    if not m:
        return ("time-raw", s)
    sign, d, h, mi, sec = m.groups()
    td = timedelta(days=int(d or 0), hours=int(h or 0), minutes=int(mi or 0), seconds=int(sec or 0))
    return -td if sign else td


_TEXT_NS = "{%s}" % NSMAP["text"]


def raw_text(el) -> str:
    """Raw (no white-space collapsing) readable text of a paragraph-like
    element: character data + text:s / text:tab / text:line-break expanded;
    notes and annotations skipped."""
    out = []

    def walk(e):
        if e.text:
            out.append(e.text)
        for c in e:
            if not isinstance(c.tag, str):
                pass  # comment / PI: no text of its own
            elif c.tag == X_S:
                try:
                    n = int(c.get(A_TC) or 1)
                except ValueError:
                    n = 1
                out.append(" " * n)
            elif c.tag == X_TAB:
                out.append("\t")
            elif c.tag == X_LB:
                out.append("\n")
            elif c.tag in (X_NOTE, X_ANNOT, X_ANNOT_END, X_BINARY) or not c.tag.startswith(_TEXT_NS):
                # not inline text of this paragraph: notes, annotations, frames,
                # shapes, titles/descriptions of objects ... (their own paragraphs,
                # if any, are texts of their own); the tail still belongs to us
                pass
            else:
                walk(c)
            if c.tail:
                out.append(c.tail)

    walk(el)
    return "".join(out)


_WS = re.compile(r"[ \t\r\n]+")


def odf_text(el, strip_trailing: bool = False) -> str:
    """ODF 1.2 §6.1.2 / §6.1.3 consumer view of a paragraph-like element.

    White space in character data is collapsed: every run of [ \\t\\r\\n] becomes
    one space, a run that *starts* the paragraph or follows a space-producing
    position... (the standard says: leading white space at paragraph start is
    removed, and a space following another collapsed space is removed — i.e.
    collapsing is done over the concatenated character data of the paragraph,
    with text:s / text:tab / text:line-break acting as non-space barriers).
    text:s gives its count of U+0020, text:tab U+0009, text:line-break U+000A.
    """
    # Build a token list: ("chars", str) | ("lit", str)
    toks = []

    def walk(e):
        if e.text:
            toks.append(("c", e.text))
        for c in e:
            if not isinstance(c.tag, str):
                pass
            elif c.tag == X_S:
                try:
                    n = int(c.get(A_TC) or 1)
                except ValueError:
                    n = 1
                toks.append(("l", " " * n))
            elif c.tag == X_TAB:
                toks.append(("l", "\t"))
            elif c.tag == X_LB:
                toks.append(("l", "\n"))
            elif c.tag in (X_NOTE, X_ANNOT, X_ANNOT_END, X_BINARY) or not c.tag.startswith(_TEXT_NS):
                # not inline text of this paragraph: notes, annotations, frames,
                # shapes, titles/descriptions of objects ... (their own paragraphs,
                # if any, are texts of their own); the tail still belongs to us
                pass
            else:
                walk(c)
            if c.tail:
                toks.append(("c", c.tail))

    walk(el)
    out = []
    # state: True if the previous emitted character-data char was a collapsed
    # space OR we are at paragraph start (leading white space is dropped)
    prev_space = True
    last_cdata_space = False  # the last thing emitted is a blank that came from character data
    for kind, s in toks:
        if kind == "l":
            out.append(s)
            prev_space = False
            last_cdata_space = False
            continue
        for ch in s:
            if ch in " \t\r\n":
                if not prev_space:
                    out.append(" ")
                    prev_space = True
                    last_cdata_space = True
            else:
                out.append(ch)
                prev_space = False
                last_cdata_space = False
    if strip_trailing and last_cdata_space and out:
        # ODF 1.2 part 1 §6.1.2, strict reading: trailing SPACE characters of the
        # concatenated character data are removed as well
        out.pop()
    return "".join(out)


def cell_value(c):
    vt = c.get(A_VTYPE)
    if vt is None:
        return None
    if vt in ("float", "percentage", "currency"):
        raw = c.get(A_VALUE)
        try:
            d = Decimal(str(raw))
        except (InvalidOperation, ValueError):
            return ("num-raw", raw)
        try:
            if int(d) == d:
                return int(d)
        except (ValueError, OverflowError):
            pass
        return d
    if vt == "string":
        sv = c.get(A_SVALUE)
        if sv is not None:
            return sv
        paras = [raw_text(p) for p in c if p.tag == X_P]
        if not paras:
            return None
        return "\n".join(paras)
    if vt == "boolean":
        return c.get(A_BVALUE) == "true"
    if vt == "date":
        raw = str(c.get(A_DVALUE))
        try:
            if "T" in raw:
                r = raw[:-1] + "+00:00" if raw.endswith("Z") else raw
                return datetime.fromisoformat(r)
            return date.fromisoformat(raw)
        except ValueError:
            return ("date-raw", raw)
    if vt == "time":
        return decode_duration(str(c.get(A_TVALUE)))
    return None


class CellV:
    __slots__ = ("value", "vtype", "style", "covered", "cspan", "rspan", "nchild")

    def __init__(self, value=None, vtype=None, style=None, covered=False, cspan=None, rspan=None, nchild=0):
        self.value = value
        self.vtype = vtype
        self.style = style
        self.covered = covered
        self.cspan = cspan
        self.rspan = rspan
        self.nchild = nchild

    def key(self):
        return (self.value, self.style, self.covered, self.cspan, self.rspan)

    def copy(self):
        return CellV(self.value, self.vtype, self.style, self.covered, self.cspan, self.rspan, self.nchild)

    def is_empty(self, aggressive=False):
        if self.value is not None or self.nchild or self.covered or self.cspan or self.rspan:
            return False
        if not aggressive and self.style is not None:
            return False
        return True

    def __repr__(self):
        extra = ""
        if self.style:
            extra += f"@{self.style}"
        if self.covered:
            extra += "#cov"
        if self.cspan or self.rspan:
            extra += f"#span{self.cspan}x{self.rspan}"
        return f"{self.value!r}{extra}"


def read_cell(c) -> CellV:
    return CellV(
        value=cell_value(c),
        vtype=c.get(A_VTYPE),
        style=c.get(A_STYLE),
        covered=(c.tag == T_COVERED),
        cspan=c.get(A_CSPAN),
        rspan=c.get(A_RSPAN),
        nchild=len(c),
    )


class TableView:
    """Uncompressed reading of a table:table element plus its RLE shape."""

    def __init__(self):
        self.cols = []  # list of (style, default_cell_style)
        self.col_runs = []  # run lengths
        self.rows = []  # list of list[CellV]   (expanded)
        self.row_styles = []
        self.row_runs = []  # run length per XML row
        self.cell_runs = []  # per XML row: list of run lengths of its cells
        self.grouped_rows = 0  # row elements that are not direct children of the table
        self.grouped_cols = 0  # column declarations that are not direct children of the table

    @property
    def width(self):
        return len(self.cols)

    @property
    def height(self):
        return len(self.rows)

    def shape(self):
        return (tuple(self.col_runs), tuple(self.row_runs), tuple(tuple(r) for r in self.cell_runs))

    # -- locate run information for probes/features -----------------------
    def row_run_info(self, y):
        """(run_len, pos_in_run) of logical row y; (0, 0) if beyond."""
        acc = 0
        for n in self.row_runs:
            if y < acc + n:
                return n, y - acc
            acc += n
        return 0, 0

    def xml_row_index(self, y):
        acc = 0
        for i, n in enumerate(self.row_runs):
            if y < acc + n:
                return i
            acc += n
        return None

    def cell_run_info(self, x, y):
        i = self.xml_row_index(y)
        if i is None:
            return 0, 0
        acc = 0
        for n in self.cell_runs[i]:
            if x < acc + n:
                return n, x - acc
            acc += n
        return 0, 0

    def col_run_info(self, x):
        acc = 0
        for n in self.col_runs:
            if x < acc + n:
                return n, x - acc
            acc += n
        return 0, 0


def table_expand(table_el, max_rows: int = 5000, max_cols: int = 2000) -> TableView:
    table_el = to_element(table_el)
    tv = TableView()
    for c in iter_cols(table_el):
        n = _rep(c, A_RCOLS)
        tv.col_runs.append(n)
        if c.getparent() is not table_el:
            tv.grouped_cols += 1
        for _ in range(min(n, max_cols)):
            tv.cols.append((c.get(A_STYLE), c.get(A_DCSTYLE)))
    for r in iter_rows(table_el):
        n = _rep(r, A_RROWS)
        tv.row_runs.append(n)
        if r.getparent() is not table_el:
            tv.grouped_rows += 1
        cells = []
        runs = []
        for c in iter_cells(r):
            k = _rep(c, A_RCOLS)
            runs.append(k)
            cv = read_cell(c)
            for _ in range(min(k, max_cols)):
                cells.append(cv)
        tv.cell_runs.append(runs)
        for _ in range(min(n, max_rows)):
            tv.rows.append([c.copy() for c in cells])
            tv.row_styles.append(r.get(A_STYLE))
    return tv


_INT_GE2 = re.compile(r"^[0-9]+$")


def table_wellformed(table_el) -> list:
    """Structural rules of C07 (first sentence). Returns a list of
    (rule, detail) problems; empty when the table is well formed."""
    table_el = to_element(table_el)
    problems = []

    def chk_rep(el, attr, what):
        v = el.get(attr)
        if v is None:
            return
        if not _INT_GE2.match(v) or int(v) < 2:
            problems.append(("repeat-attr", f"{what} {attr.split('}')[1]}={v!r}"))

    ncols = 0
    for c in iter_cols(table_el):
        chk_rep(c, A_RCOLS, "column")
        ncols += _rep(c, A_RCOLS)
    rows = list(iter_rows(table_el))
    for r in rows:
        chk_rep(r, A_RROWS, "row")
        w = 0
        for child in r:
            if not isinstance(child.tag, str):
                continue
            if child.tag not in (T_CELL, T_COVERED):
                problems.append(("row-children", f"row contains {child.tag.split('}')[1]}"))
                continue
            chk_rep(child, A_RCOLS, "cell")
            w += _rep(child, A_RCOLS)
        if w > ncols:
            problems.append(("row-wider-than-columns", f"row width {w} > {ncols} declared columns"))
    if rows and ncols == 0:
        problems.append(("rows-without-columns", f"{len(rows)} row element(s), no column declared"))
    # column declarations precede rows (document order)
    seen_row = False
    for el in table_el.iter():
        if not isinstance(el.tag, str):
            continue
        if el.tag == T_ROW:
            seen_row = True
        elif el.tag in (T_COL, T_COLS, T_HCOLS, T_CGROUP) and seen_row:
            problems.append(("column-after-row", "a column declaration follows a row"))
            break
        elif el.tag == T_TABLE and el is not table_el:
            # nested table (sub-table in a cell): do not descend further semantics
            pass
    return problems


# --------------------------------------------------------------------------
# canonical forms
# --------------------------------------------------------------------------


def c14n(data) -> bytes:
    """Canonical XML 2.0 of a document (bytes) or element: infoset equality."""
    if isinstance(data, (bytes, str)):
        if isinstance(data, str):
            data = data.encode("utf-8")
        root = etree.fromstring(data)
    else:
        root = data
    # a document element is serialised with its document: comments and processing instructions
    # before / after the root element are information items of the infoset too
    src = root.getroottree() if (root.getparent() is None and root.getroottree().getroot() is root) else root
    return etree.canonicalize(xml_data=etree.tostring(src, encoding="unicode"), with_comments=True).encode("utf-8")


def skeleton(data) -> list:
    """Element structure + sorted attribute multiset, without text."""
    root = to_element(data)
    out = []

    def walk(e, depth):
        if not isinstance(e.tag, str):
            return
        out.append((depth, e.tag, tuple(sorted(e.attrib.items()))))
        for c in e:
            walk(c, depth + 1)

    walk(root, 0)
    return out


# --------------------------------------------------------------------------
# packages
# --------------------------------------------------------------------------


class Package:
    def __init__(self):
        self.kind = None  # 'zip' | 'folder'
        self.order = []  # names in storage order (zip) / sorted (folder)
        self.parts = {}  # name -> bytes (last one wins for duplicates)
        self.compress = {}  # name -> compress_type (zip)
        self.duplicates = []
        self.dirs = []  # explicit directory entries

    def manifest_entries(self):
        """list of (full-path, media-type) from META-INF/manifest.xml"""
        data = self.parts.get("META-INF/manifest.xml")
        if data is None:
            return None
        root = etree.fromstring(data)
        res = []
        for fe in root.iter(q("manifest:file-entry")):
            res.append((fe.get(q("manifest:full-path")), fe.get(q("manifest:media-type"))))
        return res


def read_package(src) -> Package:
    """src: path to a zip file, path to a folder, or bytes of a zip."""
    p = Package()
    if isinstance(src, (bytes, bytearray)):
        zf = zipfile.ZipFile(io.BytesIO(bytes(src)))
        p.kind = "zip"
    elif os.path.isdir(src):
        p.kind = "folder"
        base = str(src)
        for root, dirs, files in os.walk(base):
            dirs.sort()
            for f in sorted(files):
                full = os.path.join(root, f)
                rel = os.path.relpath(full, base).replace(os.sep, "/")
                p.order.append(rel)
                with open(full, "rb") as fh:
                    p.parts[rel] = fh.read()
            for d in dirs:
                full = os.path.join(root, d)
                if not os.listdir(full):
                    rel = os.path.relpath(full, base).replace(os.sep, "/") + "/"
                    p.dirs.append(rel)
        return p
    else:
        zf = zipfile.ZipFile(str(src))
        p.kind = "zip"
    with zf:
        seen = set()
        for info in zf.infolist():
            name = info.filename
            if name in seen:
                p.duplicates.append(name)
            seen.add(name)
            p.order.append(name)
            if name.endswith("/"):
                p.dirs.append(name)
                continue
            p.parts[name] = zf.read(info)
            p.compress[name] = info.compress_type
    return p


# --------------------------------------------------------------------------
# text views of a whole part (C11)
# --------------------------------------------------------------------------


def paragraphs_text(root) -> list:
    """odf_text of every text:p / text:h of a part, in document order (a
    paragraph nested in a note / frame / annotation of another paragraph is
    listed on its own too)"""
    root = to_element(root)
    return [(el.tag.rsplit("}", 1)[1], odf_text(el)) for el in root.iter(X_P, X_H)]


def tag_attr_multiset(root, skip_tags=()) -> dict:
    """multiset of (tag, sorted attributes) over all elements"""
    root = to_element(root)
    out = {}
    for el in root.iter():
        if not isinstance(el.tag, str) or el.tag in skip_tags:
            continue
        k = (el.tag, tuple(sorted(el.attrib.items())))
        out[k] = out.get(k, 0) + 1
    return out


def significant_text(root) -> list:
    """character data of elements that are NOT paragraphs-like (e.g. dc:title,
    meta:keyword, config items), white-space-stripped: indentation must not
    leak into them either"""
    root = to_element(root)
    out = []
    for el in root.iter():
        if not isinstance(el.tag, str) or len(el):
            continue
        if el.text and el.text.strip():
            out.append((el.tag, el.text))
    return out
