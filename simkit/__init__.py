"""simkit — a small deterministic-simulation kernel for odfdo (see DESIGN.md §3)."""
