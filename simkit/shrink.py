"""Minimisation of a failing history (DESIGN §3.4): ddmin over the op list,
then argument shrinking.  A candidate is accepted only if its replay yields
an unlisted violation of the same class (property, oracle, culprit op name,
exception class)."""
from __future__ import annotations

import copy

from simkit.kernel import execute_with_prelude, isolated

INT_MIN1 = {"r", "k"}
INT_KEYS = {"x", "y", "at", "w", "h", "start", "r", "k", "index", "col", "row", "n", "level_n", "pos", "i", "j", "length", "offset", "olevel"}
LIST_KEYS = {"values", "cells", "rows", "edits", "cols", "a", "ops2", "chunks", "marks", "headings", "calls", "saves"}


class _Hit:
    """what a failing attempt reports back from its child process"""

    class _V:
        def __init__(self, step):
            self.step = step

    def __init__(self, step):
        self.violation = _Hit._V(step)


class Shrinker:
    def __init__(self, engine_cls, prop, cfg, findings, klass, budget=400, wall_s=90.0, replay_timeout_s=8.0, prelude=None):
        self.prelude = prelude or []  # earlier runs of the same process that the failure depends on (usually none)
        self.engine_cls = engine_cls
        self.prop = prop
        self.cfg = cfg
        self.findings = findings
        self.klass = klass
        self.budget = budget
        self.tries = 0
        import time as _t

        self._clock = _t.monotonic  # (wall-clock cap on the minimisation only: never part of a run)
        self.deadline = self._clock() + wall_s
        self.replay_timeout_s = replay_timeout_s

    def fails(self, ops):
        if self.tries >= self.budget or self._clock() > self.deadline:
            self.tries = self.budget  # stop everything
            return None
        self.tries += 1
        # every attempt runs in a child forked from this (never-ran-anything) process: same starting state each time
        r = isolated(self._attempt, self.prelude, ops)
        if r is None or tuple(r[0]) != tuple(self.klass):
            return None
        return _Hit(r[1])

    def _attempt(self, prelude, ops):
        r = execute_with_prelude(self.engine_cls, self.prop, prelude, self.cfg, ops, self.findings, timeout_s=self.replay_timeout_s)
        if r.harness_error or r.violation is None:
            return None
        return (r.violation.klass(), r.violation.step)

    def fails_with_prelude(self, prelude, ops):
        if self.tries >= self.budget or self._clock() > self.deadline:
            self.tries = self.budget
            return False
        self.tries += 1
        r = isolated(self._attempt, prelude, ops)
        return r is not None and tuple(r[0]) == tuple(self.klass)

    def minimise_prelude(self, ops):
        """ddmin over whole runs of the prelude"""
        pre = list(self.prelude)
        if not pre:
            return pre
        if self.fails_with_prelude([], ops):
            self.prelude = []
            return []
        # most often only the run just before matters, or the first ones
        for cand in ([pre[-1]], pre[-2:], pre[:1], pre[:2]):
            if len(cand) < len(pre) and self.fails_with_prelude(cand, ops):
                pre = list(cand)
                break
        n = 2
        while len(pre) >= 2 and self.tries < self.budget:
            chunk = max(1, len(pre) // n)
            reduced = False
            for start in range(0, len(pre), chunk):
                cand = pre[:start] + pre[start + chunk:]
                if self.fails_with_prelude(cand, ops):
                    pre = cand
                    n = max(n - 1, 2)
                    reduced = True
                    break
            if not reduced:
                if chunk == 1:
                    break
                n = min(n * 2, len(pre))
        self.prelude = pre
        return pre

    def ddmin(self, ops):
        # op 0 (init) is kept fixed
        head, body = ops[:1], ops[1:]
        r = self.fails(head + body)
        if r is None:
            return ops
        body = body[: max(0, r.violation.step)] if r.violation.step >= 1 else body
        # the failing step itself must stay: it is the last element
        n = 2
        while len(body) >= 2 and self.tries < self.budget:
            chunk = max(1, len(body) // n)
            reduced = False
            for start in range(0, len(body), chunk):
                cand = body[:start] + body[start + chunk:]
                if not cand:
                    continue
                r = self.fails(head + cand)
                if r is not None:
                    body = cand[: r.violation.step] if r.violation.step >= 1 else cand
                    n = max(n - 1, 2)
                    reduced = True
                    break
            if not reduced:
                if chunk == 1:
                    break
                n = min(n * 2, len(body))
        return head + body

    # ---- argument shrinking ------------------------------------------------
    def _candidates(self, node, path=()):
        """yield (path, new_value) simplifications inside a JSON op"""
        if isinstance(node, dict):
            for k, v in node.items():
                if isinstance(v, bool):
                    if k == "clone" and v is False:
                        yield path + (k,), True
                    elif k in ("attached", "string_attr") and v is True:
                        yield path + (k,), False
                elif isinstance(v, int) and k in INT_KEYS:
                    lo = 1 if k in INT_MIN1 else 0
                    if v > lo:
                        for nv in sorted({lo, v // 2, v - 1}):
                            if lo <= nv < v:
                                yield path + (k,), nv
                elif isinstance(v, list) and k in LIST_KEYS and k != "a":
                    if len(v) > 0:
                        for i in range(len(v)):
                            yield path + (k,), v[:i] + v[i + 1:]
                    for i, item in enumerate(v):
                        yield from self._candidates(item, path + (k, i))
                elif isinstance(v, (dict, list)):
                    yield from self._candidates(v, path + (k,))
                elif k in ("s", "form", "yform", "xform", "how") and v is not None:
                    yield path + (k,), None
        elif isinstance(node, list):
            for i, item in enumerate(node):
                yield from self._candidates(item, path + (i,))

    @staticmethod
    def _set(node, path, value):
        node = copy.deepcopy(node)
        cur = node
        for p in path[:-1]:
            cur = cur[p]
        if value is None and isinstance(cur, dict):
            cur.pop(path[-1], None)
        else:
            cur[path[-1]] = value
        return node

    def shrink_args(self, ops):
        improved = True
        rounds = 0
        while improved and self.tries < self.budget and rounds < 6:
            improved = False
            rounds += 1
            for i in range(len(ops) - 1, -1, -1):
                changed = True
                while changed and self.tries < self.budget:
                    changed = False
                    for path, val in self._candidates(ops[i]):
                        cand_op = self._set(ops[i], path, val)
                        cand = ops[:i] + [cand_op] + ops[i + 1:]
                        if self.fails(cand) is not None:
                            ops = cand
                            changed = True
                            improved = True
                            break
        return ops

    def minimise(self, ops):
        ops = self.ddmin(ops)
        ops = self.shrink_args(ops)
        ops = self.ddmin(ops)
        return ops
